//! Collecting per-property verdicts of a harness run and printing them as one JSON document.
use serde_json::{json, Value};
use std::collections::BTreeMap;

#[derive(Default)]
pub struct PropResult {
    pub checked: u64,
    pub violations: u64,
    pub first: Vec<Value>,
    pub max_dev: f64,
    pub known: u64,
    pub known_first: Vec<Value>,
}

#[derive(Default)]
pub struct Report {
    pub props: BTreeMap<String, PropResult>,
    pub counters: BTreeMap<String, u64>,
    pub samples: Vec<Value>,
    pub notes: Vec<String>,
    pub tool_errors: Vec<String>,
    /// order independent hash (xor of per-observation hashes) of observed output bits
    pub hash: u64,
}

impl Report {
    pub fn new() -> Self {
        Self::default()
    }
    pub fn count(&mut self, key: &str, n: u64) {
        *self.counters.entry(key.to_string()).or_insert(0) += n;
    }
    pub fn ok(&mut self, prop: &str, dev: f64) {
        let p = self.props.entry(prop.to_string()).or_default();
        p.checked += 1;
        if dev.is_finite() && dev > p.max_dev {
            p.max_dev = dev;
        }
    }
    pub fn violation(&mut self, prop: &str, detail: Value) {
        let p = self.props.entry(prop.to_string()).or_default();
        p.checked += 1;
        p.violations += 1;
        if p.first.len() < 25 {
            p.first.push(detail);
        }
    }
    pub fn known(&mut self, prop: &str, detail: Value) {
        let p = self.props.entry(prop.to_string()).or_default();
        p.checked += 1;
        p.known += 1;
        if p.known_first.len() < 10 {
            p.known_first.push(detail);
        }
    }
    /// generic check: `good` or a violation with lazily built detail
    pub fn check(&mut self, prop: &str, good: bool, dev: f64, detail: impl FnOnce() -> Value) {
        if good {
            self.ok(prop, dev);
        } else {
            self.violation(prop, detail());
        }
    }
    pub fn sample(&mut self, v: Value) {
        if self.samples.len() < 5 {
            self.samples.push(v);
        }
    }
    pub fn tool_error(&mut self, s: String) {
        if self.tool_errors.len() < 20 {
            self.tool_errors.push(s);
        }
    }
    pub fn to_json(&self) -> Value {
        let mut props = serde_json::Map::new();
        for (k, p) in &self.props {
            props.insert(
                k.clone(),
                json!({"checked": p.checked, "violations": p.violations, "first": p.first,
                       "max_dev": p.max_dev, "known": p.known, "known_first": p.known_first}),
            );
        }
        json!({"props": props, "counters": self.counters, "samples": self.samples,
               "notes": self.notes, "tool_errors": self.tool_errors, "obs_hash": format!("{:016x}", self.hash)})
    }
    pub fn merge(&mut self, other: Report) {
        for (k, p) in other.props {
            let q = self.props.entry(k).or_default();
            q.checked += p.checked;
            q.violations += p.violations;
            q.known += p.known;
            if p.max_dev > q.max_dev {
                q.max_dev = p.max_dev;
            }
            for v in p.first {
                if q.first.len() < 25 {
                    q.first.push(v);
                }
            }
            for v in p.known_first {
                if q.known_first.len() < 10 {
                    q.known_first.push(v);
                }
            }
        }
        for (k, n) in other.counters {
            *self.counters.entry(k).or_insert(0) += n;
        }
        for v in other.samples {
            if self.samples.len() < 5 {
                self.samples.push(v);
            }
        }
        self.hash = self.hash.wrapping_add(other.hash);
        self.notes.extend(other.notes);
        self.tool_errors.extend(other.tool_errors);
    }
}

/// fold the bit patterns of an observation into the report's order independent hash
pub fn hash_obs<T: crate::sc::Sc>(rep: &mut Report, c: &Option<Vec<T>>, r: &Option<Vec<T>>, j: &Option<Vec<T>>) {
    let mut h: u64 = 0xcbf29ce484222325;
    // under a poisoning allocator an element that still carries the fill pattern was never written
    let mode = crate::POISON_MODE.load(std::sync::atomic::Ordering::Relaxed);
    let pattern: Option<u64> = match (mode, T::NAME) {
        (1, "f64") => Some(0x5A5A_5A5A_5A5A_5A5A),
        (1, _) => Some(0x5A5A_5A5A),
        (2, "f64") => Some(u64::MAX),
        (2, _) => Some(0xFFFF_FFFF),
        _ => None,
    };
    for (pi, part) in [c, r, j].into_iter().enumerate() {
        h = h.wrapping_mul(0x100000001b3) ^ 0xff;
        if let Some(v) = part {
            let mut unwritten = 0usize;
            for x in v {
                h = (h ^ x.bits()).wrapping_mul(0x100000001b3);
                if Some(x.bits()) == pattern {
                    unwritten += 1;
                }
            }
            if pattern.is_some() {
                let what = ["coefficients", "residuals", "jacobian"][pi];
                rep.check("C10", unwritten == 0, 0.0, || {
                    serde_json::json!({"what": format!("{} of {} elements of the returned {} carry the allocator's fill pattern: never written", unwritten, v.len(), what),
                                       "scalar": T::NAME, "poison_mode": mode})
                });
            }
        }
    }
    rep.hash = rep.hash.wrapping_add(h);
}
