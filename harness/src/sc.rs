//! Scalar abstraction (f32 / f64) and numeric comparison against exact rationals.
use nalgebra::{DMatrix, DVector, RealField};
use num_traits::{Float, FromPrimitive};
use varpro::statistics::numeric_traits::CastF64;

pub trait Sc:
    RealField + Float + Copy + FromPrimitive + CastF64 + Send + Sync + std::fmt::Debug + 'static
{
    const NAME: &'static str;
    /// relative tolerance for comparing against exact rationals on the lattice
    fn tol() -> f64;
    /// tolerance of the SVD health gate
    fn svd_tol() -> f64;
    /// user chosen singular value threshold used for rank deficient instances
    fn eps_user() -> Self;
    fn to64(self) -> f64;
    fn of64(v: f64) -> Self;
    fn bits(self) -> u64;
}

impl Sc for f64 {
    const NAME: &'static str = "f64";
    fn tol() -> f64 {
        1e-6
    }
    fn svd_tol() -> f64 {
        1e-9
    }
    fn eps_user() -> Self {
        1e-8
    }
    fn to64(self) -> f64 {
        self
    }
    fn of64(v: f64) -> Self {
        v
    }
    fn bits(self) -> u64 {
        self.to_bits()
    }
}

impl Sc for f32 {
    const NAME: &'static str = "f32";
    fn tol() -> f64 {
        5e-3
    }
    fn svd_tol() -> f64 {
        1e-4
    }
    fn eps_user() -> Self {
        1e-4
    }
    fn to64(self) -> f64 {
        self as f64
    }
    fn of64(v: f64) -> Self {
        v as f32
    }
    fn bits(self) -> u64 {
        self.to_bits() as u64
    }
}

/// integer matrix (rows of i64) to a scalar matrix
pub fn mat_from_rows<T: Sc>(rows: &[Vec<i64>], ncols: usize) -> DMatrix<T> {
    let n = rows.len();
    DMatrix::from_fn(n, ncols, |i, j| T::of64(rows[i][j] as f64))
}

pub fn vec_from<T: Sc>(v: &[i64]) -> DVector<T> {
    DVector::from_iterator(v.len(), v.iter().map(|&x| T::of64(x as f64)))
}

/// deviation of `got` from the exact rational num/den, relative to max(1, |num/den|)
pub fn dev(got: f64, num: i64, den: i64) -> f64 {
    let e = num as f64 / den as f64;
    if !got.is_finite() {
        return f64::INFINITY;
    }
    (got - e).abs() / e.abs().max(1.0)
}

pub fn devf(got: f64, e: f64) -> f64 {
    if !got.is_finite() || !e.is_finite() {
        if got.is_nan() && e.is_nan() {
            return 0.0;
        }
        if got == e {
            return 0.0;
        }
        return f64::INFINITY;
    }
    (got - e).abs() / e.abs().max(1.0)
}

pub fn bits_eq<T: Sc>(a: &[T], b: &[T]) -> bool {
    a.len() == b.len() && a.iter().zip(b.iter()).all(|(x, y)| x.bits() == y.bits())
}

/// maximum that does not swallow NaN (f64::max ignores a NaN operand: a NaN result must fail a comparison)
pub fn nmax(a: f64, b: f64) -> f64 {
    if b.is_nan() || a.is_nan() {
        f64::INFINITY
    } else {
        a.max(b)
    }
}
