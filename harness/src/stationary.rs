//! C12 / C13 / C14: fit_with_statistics at exactly stationary lattice starts (exported by
//! spec/MC_Stationary.tla) compared with exact rational statistics; under-determined shapes
//! must give an error value in every build profile.
use crate::lattice::FamJ;
use crate::models::*;
use crate::prob::*;
use crate::report::Report;
use crate::sc::*;
use nalgebra::DMatrix;
use rayon::prelude::*;
use serde::Deserialize;
use serde_json::json;
use std::panic::{catch_unwind, AssertUnwindSafe};
use std::sync::Arc;

#[derive(Deserialize, Debug, Clone)]
pub struct StLine {
    pub fam: FamJ,
    pub x: Vec<i64>,
    pub w: Vec<i64>,
    pub a: Vec<i64>,
    pub c: Vec<i64>,
    pub r0: Vec<i64>,
    pub y: Vec<i64>,
    pub phi: Vec<Vec<i64>>,
    pub dphi: Vec<Vec<Vec<i64>>>,
    pub nu: i64,
    pub rr: i64,
    #[serde(rename = "detH")]
    pub deth: i64,
    pub adj: Vec<Vec<i64>>,
    pub quad: Vec<i64>,
    pub rw: Vec<i64>,
    pub tq: Vec<i64>,
    pub pnum: Vec<i64>,
    /// row replication factors that land on tabulated degrees of freedom (VPStats!ReplLaw)
    #[serde(default)]
    pub repl: Vec<ReplJ>,
    /// a probability 1 - k 2^-e very close to one and its quantile v 10^-d
    #[serde(default)]
    pub pfine: Option<PFineJ>,
    #[serde(default)]
    pub tqfine: Option<TqFineJ>,
    #[serde(default)]
    pub pfine2: Option<PFineJ>,
    #[serde(default)]
    pub tqfine2: Option<TqFineJ>,
}
#[derive(Deserialize, Debug, Clone)]
pub struct PFineJ {
    pub k: i64,
    pub e: i32,
}
#[derive(Deserialize, Debug, Clone)]
pub struct TqFineJ {
    pub v: i64,
    pub d: i32,
}
#[derive(Deserialize, Debug, Clone)]
pub struct ReplJ {
    pub k: usize,
    pub nu: i64,
    pub tq: Vec<i64>,
}
#[derive(Deserialize, Debug, Clone)]
pub struct SuLine {
    pub fam: FamJ,
    pub x: Vec<i64>,
    pub w: Vec<i64>,
    pub a: Vec<i64>,
    pub y: Vec<i64>,
    pub phi: Vec<Vec<i64>>,
    pub dphi: Vec<Vec<Vec<i64>>>,
    pub nu: i64,
    pub stats_defined: bool,
}

const BAD_PS: [f64; 7] = [0.0, 1.0, -0.1, 1.5, f64::NAN, f64::INFINITY, f64::NEG_INFINITY];

fn table_of<T: Sc>(fam: &FamJ, a: &[i64], phi: &[Vec<i64>], dphi: &[Vec<Vec<i64>>], n: usize) -> Arc<Table<T>> {
    Arc::new(Table {
        n,
        m: fam.m,
        p: fam.p,
        entries: vec![TableEntry {
            a: a.to_vec(),
            phi: mat_from_rows(phi, fam.m),
            dphi: dphi.iter().map(|d| mat_from_rows(d, fam.m)).collect(),
        }],
    })
}

#[derive(Clone, Copy, Debug, PartialEq)]
enum MKind {
    Table,
    TableBuilt,
    Poly,
    PolyBuilt,
}

#[allow(clippy::too_many_arguments)]
fn make<T: Sc>(
    kind: MKind,
    fam: &FamJ,
    table: &Arc<Table<T>>,
    xs: &[T],
    a: &[i64],
    y: &DMatrix<T>,
    w: Option<&[T]>,
    par: bool,
) -> Result<Box<dyn Prob<T>>, String> {
    let at: Vec<T> = a.iter().map(|&v| T::of64(v as f64)).collect();
    let r = match kind {
        MKind::Table => build_problem(TableModel::new(table.clone(), a), false, par, y, w, None),
        MKind::TableBuilt => build_problem(
            table_model_built(table.clone(), a, false).map_err(|e| format!("{e:?}"))?,
            false,
            par,
            y,
            w,
            None,
        ),
        MKind::Poly => build_problem(PolyModel::new(&fam.name, xs, &at), false, par, y, w, None),
        MKind::PolyBuilt => build_problem(
            poly_model_built(&fam.name, xs, &at, false).map_err(|e| format!("{e:?}"))?,
            false,
            par,
            y,
            w,
            None,
        ),
    };
    r.map_err(|e| format!("{e:?}"))
}

fn stat_cfg<T: Sc>() -> LmCfg {
    LmCfg {
        gtol: Some(if T::NAME == "f64" { 1e-6 } else { 1e-3 }),
        ..LmCfg::default()
    }
}

fn judge_stationary<T: Sc>(idx: usize, l: &StLine, rep: &mut Report) {
    // the instance itself and its scaled-residual twins (VPStats!ScaleLaw): r0 * 2^-k
    let ks: &[i32] = if T::NAME == "f64" { &[0, 20, 30] } else { &[0, 8] };
    for &k in ks {
        judge_stationary_scaled::<T>(idx, l, k, 0, 0, None, rep);
    }
    // weight-scaled twins (VPStats!WeightScaleLaw): w * 2^-k; chi2 scales, Cov / band / correlation do not
    let wk = if T::NAME == "f64" { 14 } else { 5 };
    judge_stationary_scaled::<T>(idx, l, 0, wk, 0, None, rep);
    // weight-sign twins: every non-zero weight replaced by -|w| (all weights <= 0, zeros stay): W enters
    // H^T H and |r_w|^2 squared, so chi2, Cov, correlation and band radius do not change at all
    if !l.w.is_empty() {
        judge_stationary_scaled::<T>(idx, l, 0, -1, 0, None, rep);
    }
    // coefficient-scaled twins (VPStats!CoeffScaleLaw): c * 2^k; the nonlinear columns of H grow by 2^k,
    // H^T H is badly scaled (not ill conditioned): Cov_ij shrinks by S_i S_j, everything else stays
    let ck = if T::NAME == "f64" { 30 } else { 12 };
    judge_stationary_scaled::<T>(idx, l, 0, 0, ck, None, rep);
    // row-replicated twins (VPStats!ReplLaw): degrees of freedom 8 .. 1000 with exactly known statistics
    for r in l.repl.iter() {
        if idx % 4 == 0 || r.k <= 8 {
            judge_stationary_scaled::<T>(idx, l, 0, 0, 0, Some(r), rep);
        }
    }
}

fn judge_stationary_scaled<T: Sc>(idx: usize, l: &StLine, kexp: i32, wexp: i32, cexp: i32, repl: Option<&ReplJ>, rep: &mut Report) {
    let t = (2.0f64).powi(-kexp);
    let wsign = wexp == -1;
    let wexp = if wsign { 0 } else { wexp };
    let tw = (2.0f64).powi(-wexp);
    let tc = (2.0f64).powi(cexp);
    let n0 = l.x.len();
    let kk = repl.map(|r| r.k).unwrap_or(1);
    let n = kk * n0;
    let (m, p) = (l.fam.m, l.fam.p);
    let phi_rep: Vec<Vec<i64>> = (0..n).map(|i| l.phi[i % n0].clone()).collect();
    let dphi_rep: Vec<Vec<Vec<i64>>> = l.dphi.iter().map(|d| (0..n).map(|i| d[i % n0].clone()).collect()).collect();
    let table = table_of::<T>(&l.fam, &l.a, &phi_rep, &dphi_rep, n);
    let xs: Vec<T> = (0..n).map(|i| T::of64(l.x[i % n0] as f64)).collect();
    // y = Phi (tc c) + t r0  (exactly representable: small integers times 2^k plus r0 * 2^-k)
    let yv = |i: usize| tc * (l.y[i % n0] - l.r0[i % n0]) as f64 + t * l.r0[i % n0] as f64;
    let y = DMatrix::from_fn(n, 1, |i, _| T::of64(yv(i)));
    if (0..n).any(|i| y[(i, 0)].to64() != yv(i)) {
        return; // not exact in this scalar type
    }
    let w: Option<Vec<T>> = if wsign {
        Some((0..n).map(|i| T::of64(-(l.w[i % n0] as f64).abs())).collect())
    } else if wexp != 0 {
        Some((0..n).map(|i| T::of64(tw * if l.w.is_empty() { 1.0 } else { l.w[i % n0] as f64 })).collect())
    } else if l.w.is_empty() {
        None
    } else {
        Some((0..n).map(|i| T::of64(l.w[i % n0] as f64)).collect())
    };
    let plain = kexp == 0 && wexp == 0 && cexp == 0 && kk == 1 && !wsign;
    let tol = if plain { T::tol() } else { T::tol() * 100.0 };
    // S = diag(1, .., 1, tc, .., tc): scaling of the columns of H under the coefficient scaling
    let sc_of = |i: usize| if i < m { 1.0 } else { tc };
    let tq: &Vec<i64> = repl.map(|r| &r.tq).unwrap_or(&l.tq);
    let band_tol = if T::NAME == "f64" { 2e-4 } else { 5e-3 };
    let mut kinds = vec![MKind::Table, MKind::TableBuilt];
    if poly_is_family(&l.fam.name) {
        kinds.push(MKind::Poly);
        kinds.push(MKind::PolyBuilt);
    }
    let mut ps: Vec<f64> = l.pnum.iter().map(|&v| v as f64 / 1000.0).collect();
    // the probability next to one (only where its quantile is tabulated: the unreplicated instance)
    let mut t_fine: Vec<f64> = Vec::new();
    for (pf, tf) in [(l.pfine.as_ref(), l.tqfine.as_ref()), (l.pfine2.as_ref(), l.tqfine2.as_ref())] {
        if let (None, Some(pf), Some(tf)) = (repl, pf, tf) {
            if tf.v > 0 {
                ps.push(1.0 - pf.k as f64 * (2.0f64).powi(-pf.e));
                t_fine.push(tf.v as f64 * (10.0f64).powi(-tf.d));
            }
        }
    }
    let nu = repl.map(|r| r.nu).unwrap_or(l.nu) as f64;
    let deth = l.deth as f64;
    // |rw|^2 scales with both factors; det and adj scale with the weights but their ratio
    // rr*adj/(nu*det) does not (handled by using rr0 for covariance-like quantities)
    // (under row replication |rw|^2 and H^T H both grow by the factor K, which cancels in Cov)
    let rr0 = l.rr as f64 * t * t;
    let rr = rr0 * tw * tw * kk as f64;
    for (ki, &kind) in kinds.iter().enumerate() {
        let par = (idx + ki) % 2 == 1;
        let flav = format!("line={} fam={}({},{},{}) {} {:?} par={} rscale=2^-{} wscale=2^-{} cscale=2^{} rows x{} nu={}{}", idx, l.fam.name, m, p, l.fam.seed, T::NAME, kind, par, kexp, wexp, cexp, kk, nu, if wsign { " weights -|w|" } else { "" });
        let det = |what: &str, dv: f64| json!({"flavour": flav, "what": what, "dev": dv, "a": l.a, "c": l.c, "r0": l.r0, "w": l.w});
        if !plain && !(kexp != 0 || wexp != 0) && ki >= 2 && idx % 2 == 1 {
            continue; // the polynomial flavours of the new twins on every other instance only
        }
        let prob = match make::<T>(kind, &l.fam, &table, &xs, &l.a, &y, w.as_deref(), par) {
            Ok(p) => p,
            Err(e) => {
                rep.tool_error(format!("stationary: cannot build {flav}: {e}"));
                continue;
            }
        };
        let out = catch_unwind(AssertUnwindSafe(|| prob.fit_stats(&stat_cfg::<T>(), &ps, &BAD_PS)));
        let out = match out {
            Err(_) => {
                rep.violation("C12", det("fit_with_statistics panicked", 0.0));
                continue;
            }
            Ok(None) => unreachable!(),
            Ok(Some(o)) => o,
        };
        // the start is exactly stationary: the fit must stop there after one evaluation
        if !(out.fit.nfev == 1 && out.fit.termination == "Orthogonal") {
            rep.count(if plain { "not_stationary_numerically" } else { "scaled_twin_not_stationary_numerically" }, 1);
            if rep.notes.len() < 3 {
                rep.notes.push(format!("instance left the lattice: {} term={} nfev={}", flav, out.fit.termination, out.fit.nfev));
            }
            continue;
        }
        rep.count("stationary_fits", 1);
        if cexp != 0 {
            rep.count("coefficient_scaled_twin_fits", 1);
        }
        if kk > 1 {
            rep.count("row_replicated_twin_fits", 1);
            rep.count(&format!("replicated_nu_{}", nu as i64), 1);
        }
        // C12: N > M + P here, the fit succeeded, the model does not err  =>  Ok
        let st = match out.stats {
            None => {
                rep.violation("C12", det("fit_with_statistics returned Err although N > M+P, the fit succeeded and the model evaluates", 0.0));
                continue;
            }
            Some(s) => s,
        };
        rep.ok("C12", 0.0);
        // C12: weighted residuals = final residuals of the fit (and the exact rw)
        let fr = out.fit.fin.residuals.clone().unwrap_or_default();
        let same = st.wres.len() == fr.len() && st.wres.iter().zip(fr.iter()).all(|(a, b)| devf(a.to64(), b.to64()) <= tol);
        rep.check("C12", same, 0.0, || det("weighted_residuals differ from the final residuals of the fit", 0.0));
        let mut worst = 0.0f64;
        if st.wres.len() == n {
            for i in 0..n {
                let e = l.rw[i % n0] as f64 * t * tw * if wsign && l.w[i % n0] > 0 { -1.0 } else { 1.0 };
                worst = nmax(worst, (st.wres[i].to64() - e).abs() / e.abs().max(t * tw));
            }
        } else {
            worst = f64::INFINITY;
        }
        rep.check("C12", worst <= tol, worst, || det("weighted_residuals differ from W(y - Phi c)", worst));
        // C12: reduced chi2 = |r|^2 / (N-M-P), standard error = sqrt
        let chi_e = rr / nu;
        let dchi = (st.chi2.to64() - chi_e).abs() / chi_e.abs().max(1e-300);
        rep.check("C12", dchi <= tol, dchi, || det("reduced_chi2 != |r_w|^2/(N-M-P)", dchi));
        let drse = (st.rse.to64() * st.rse.to64() - st.chi2.to64()).abs() / st.chi2.to64().abs().max(1e-300);
        rep.check("C12", drse <= tol, drse, || det("regression_standard_error^2 != reduced_chi2", drse));

        // C13: covariance = chi2 * adj / det, order (c, alpha)
        let k = m + p;
        let shape_ok = st.cov.nrows() == k && st.cov.ncols() == k;
        rep.check("C13", shape_ok, 0.0, || det("covariance shape", 0.0));
        if shape_ok {
            let scale = (0..k).flat_map(|i| (0..k).map(move |j| (i, j))).fold(0.0f64, |mx, (i, j)| mx.max((rr0 * l.adj[i][j] as f64 / (nu * deth)).abs()));
            let mut worst = 0.0f64;
            let mut asym = 0.0f64;
            for i in 0..k {
                for j in 0..k {
                    // compared after undoing the column scaling: S Cov' S = Cov
                    let e = rr0 * l.adj[i][j] as f64 / (nu * deth);
                    let un = sc_of(i) * sc_of(j);
                    worst = nmax(worst, (st.cov[(i, j)].to64() * un - e).abs() / scale);
                    asym = nmax(asym, (st.cov[(i, j)].to64() - st.cov[(j, i)].to64()).abs() * un / scale);
                }
            }
            rep.check("C13", worst <= tol, worst, || det("covariance differs from sigma^2 (H^T H)^-1 in (c, alpha) order", worst));
            rep.check("C13", asym <= tol, asym, || det("covariance not symmetric", asym));
            rep.check("C13", (0..k).all(|i| st.cov[(i, i)].to64() >= 0.0), 0.0, || det("negative variance", 0.0));
            // accessors are exactly the diagonal segments
            let lin_ok = st.lin_var.len() == m && (0..m).all(|i| st.lin_var[i].bits() == st.cov[(i, i)].bits());
            let non_ok = st.nonlin_var.len() == p && (0..p).all(|i| st.nonlin_var[i].bits() == st.cov[(m + i, m + i)].bits());
            rep.check("C13", lin_ok, 0.0, || det("linear_coefficients_variance is not the first M diagonal entries", 0.0));
            rep.check("C13", non_ok, 0.0, || det("nonlinear_parameters_variance is not the last P diagonal entries", 0.0));
            // correlation
            let mut worst = 0.0f64;
            let mut range_ok = st.corr.nrows() == k && st.corr.ncols() == k;
            if range_ok {
                for i in 0..k {
                    for j in 0..k {
                        let aij = l.adj[i][j] as f64;
                        let e = aij.signum() * (aij * aij / (l.adj[i][i] as f64 * l.adj[j][j] as f64)).sqrt();
                        let g = st.corr[(i, j)].to64();
                        worst = nmax(worst, (g - e).abs());
                        if !(g.abs() <= 1.0 + 10.0 * tol) {
                            range_ok = false;
                        }
                        if i == j && (g - 1.0).abs() > tol {
                            range_ok = false;
                        }
                        if st.corr_deprecated[(i, j)].bits() != st.corr[(i, j)].bits() {
                            range_ok = false;
                        }
                    }
                }
            }
            rep.check("C13", worst <= tol.max(1e-6), worst, || det("correlation differs from cov_ij/sqrt(cov_ii cov_jj)", worst));
            rep.check("C13", range_ok, 0.0, || det("correlation matrix: unit diagonal / range [-1,1] / deprecated accessor", 0.0));
        }

        // C14: band radius
        let mut prev: Option<Vec<f64>> = None;
        for (pi, (pv, band)) in st.bands.iter().enumerate() {
            let t = if pi < tq.len() { tq[pi] as f64 / 1e6 } else { t_fine[pi - tq.len()] };
            let mut worst = 0.0f64;
            let mut ok = band.len() == n;
            if ok {
                for i in 0..n {
                    let e = t * (rr0 * l.quad[i % n0] as f64 / (nu * deth)).sqrt();
                    let g = band[i].to64();
                    if !g.is_finite() || g < 0.0 {
                        ok = false;
                    }
                    let scale = t * (rr0 / (nu * deth)).sqrt() * (l.quad.iter().cloned().max().unwrap_or(1) as f64).sqrt();
                    worst = nmax(worst, (g - e).abs() / scale.max(1e-300));
                }
                if let Some(pr) = &prev {
                    for i in 0..n {
                        if band[i].to64() < pr[i] * (1.0 - 1e-9) {
                            ok = false;
                        }
                    }
                }
            }
            rep.check("C14", ok, 0.0, || det(&format!("band radius at p={pv}: length/finite/non-negative/monotone in p"), 0.0));
            rep.check("C14", worst <= band_tol, worst, || det(&format!("band radius at p={pv} differs from t((1+p)/2; nu) sqrt(j^T Cov j)"), worst));
            prev = Some(band.iter().map(|v| v.to64()).collect());
        }
        // probabilities next to zero are inside (0,1): a band of N finite non-negative radii, not above the p = 0.01 band
        for (pv, band) in st.tiny_bands.iter() {
            let ok = match band {
                None => false,
                Some(b) => b.len() == n && b.iter().all(|v| v.to64().is_finite() && v.to64() >= 0.0) && st.bands.first().map(|(_, b0)| b0.len() == n && (0..n).all(|i| b[i].to64() <= b0[i].to64() * (1.0 + 1e-9) + 1e-300)).unwrap_or(true),
            };
            rep.check("C14", ok, 0.0, || det(&format!("band radius at p={pv:e} (inside (0,1)): {}", if band.is_none() { "the call panicked" } else { "length/finite/non-negative/monotone in p" }), 0.0));
        }
        for (pv, panicked) in st.bad_p_panicked.iter() {
            rep.check("C14", *panicked, 0.0, || det(&format!("probability {pv} outside (0,1) was not rejected"), 0.0));
        }
    }
}

fn judge_under<T: Sc>(idx: usize, l: &SuLine, rep: &mut Report) {
    let n = l.x.len();
    let table = table_of::<T>(&l.fam, &l.a, &l.phi, &l.dphi, n);
    let xs: Vec<T> = l.x.iter().map(|&v| T::of64(v as f64)).collect();
    let y = DMatrix::from_fn(n, 1, |i, _| T::of64(l.y[i] as f64));
    let w: Option<Vec<T>> = if l.w.is_empty() { None } else { Some(l.w.iter().map(|&v| T::of64(v as f64)).collect()) };
    // (with the default threshold and with a caller's threshold that truncates part of the spectrum:
    // the count that matters is the number of basis functions, not a numerical rank)
    // (also with blank data: all observations zero, or all weights zero - the verdict depends on the counts only)
    let y0 = y.clone();
    let w0 = w.clone();
    for (par, thr, blank) in [(false, None, 0), (true, None, 0), (false, Some(1.5f64), 0), (true, Some(0.6), 0), (false, None, 1), (true, None, 2), (false, Some(0.6), 1)] {
        let y = if blank == 1 { DMatrix::from_element(n, 1, T::zero()) } else { y0.clone() };
        let w: Option<Vec<T>> = if blank == 2 { Some(vec![T::zero(); n]) } else { w0.clone() };
        let flav = format!("under line={} fam={}({},{},{}) N={} {} par={} eps={:?}{}", idx, l.fam.name, l.fam.m, l.fam.p, l.fam.seed, n, T::NAME, par, thr, ["", " all observations zero", " all weights zero"][blank]);
        let built = match thr {
            None => make::<T>(MKind::Table, &l.fam, &table, &xs, &l.a, &y, w.as_deref(), par),
            Some(e) => build_problem(TableModel::new(table.clone(), &l.a), false, par, &y, w.as_deref(), Some(T::of64(e))).map_err(|e| format!("{e:?}")),
        };
        let prob = match built {
            Ok(p) => p,
            Err(e) => {
                rep.tool_error(format!("under: cannot build {flav}: {e}"));
                continue;
            }
        };
        let out = catch_unwind(AssertUnwindSafe(|| prob.fit_stats(&LmCfg::default(), &[0.5], &[])));
        match out {
            Err(_) => rep.violation("C12", json!({"flavour": flav, "what": "fit_with_statistics panicked on an under-determined problem (N <= M+P)", "profile": if cfg!(debug_assertions) {"dev"} else {"release"}, "key": format!("underdetermined N={} M+P={}", n, l.fam.m + l.fam.p)})),
            Ok(Some(o)) => {
                if thr.is_some() && o.fit.was_successful {
                    rep.count("underdetermined_truncated_successful_fits", 1);
                }
                rep.check("C12", o.stats.is_none() && !o.fit.ok, 0.0, || {
                    json!({"flavour": flav, "what": "fit_with_statistics returned Ok although N <= M+P"})
                });
            }
            Ok(None) => unreachable!(),
        }
        rep.count("underdetermined_runs", 1);
    }
}

/// C12 (and the statistics derived from sigma): fits whose final residuals are EXACTLY zero in every
/// component while H^T H is invertible.  The weighted basis matrices are chosen so that the
/// decomposition is exact (orthogonal unit columns, or a constant column over 4 or 9 samples); reduced
/// chi2 = 0 / (N-M-P) = 0, standard error 0, covariance 0, band radius 0 - all finite.
fn zero_residual_probes<T: Sc>(rep: &mut Report) {
    struct Probe {
        name: &'static str,
        phi: Vec<Vec<i64>>,
        dphi: Vec<Vec<i64>>,
        c: Vec<i64>,
    }
    let probes = vec![
        Probe { name: "constant over 4 samples", phi: vec![vec![1]; 4], dphi: vec![vec![0], vec![1], vec![2], vec![3]], c: vec![3] },
        Probe { name: "constant over 9 samples", phi: vec![vec![1]; 9], dphi: (0..9).map(|i| vec![(i * i) % 5]).collect(), c: vec![-2] },
        Probe {
            name: "two unit columns, 5 samples",
            phi: vec![vec![1, 0], vec![0, 1], vec![0, 0], vec![0, 0], vec![0, 0]],
            dphi: vec![vec![0, 0], vec![0, 0], vec![1, 0], vec![0, 1], vec![1, 1]],
            c: vec![5, 7],
        },
    ];
    for pr in probes.iter() {
        let n = pr.phi.len();
        let m = pr.c.len();
        let fam = FamJ { name: "TAB".into(), m, p: 1, seed: 0 };
        let table = table_of::<T>(&fam, &[0], &pr.phi, &[pr.dphi.clone()], n);
        let xs: Vec<T> = (0..n).map(|i| T::of64(i as f64)).collect();
        let yv: Vec<f64> = (0..n).map(|i| (0..m).map(|j| (pr.phi[i][j] * pr.c[j]) as f64).sum()).collect();
        for (wi, w) in [None, Some(vec![T::of64(2.0); n]), Some((0..n).map(|i| T::of64(if i % 2 == 0 { 1.0 } else { 4.0 })).collect::<Vec<T>>())].into_iter().enumerate() {
            for par in [false, true] {
                let y = DMatrix::from_fn(n, 1, |i, _| T::of64(yv[i]));
                let flav = format!("exact zero residuals: {} weights#{} {} par={}", pr.name, wi, T::NAME, par);
                let det = |what: &str| json!({"flavour": flav, "what": what});
                let Ok(prob) = make::<T>(MKind::Table, &fam, &table, &xs, &[0], &y, w.as_deref(), par) else {
                    rep.tool_error(format!("cannot build {flav}"));
                    continue;
                };
                let out = match catch_unwind(AssertUnwindSafe(|| prob.fit_stats(&stat_cfg::<T>(), &[0.5, 0.95], &[]))) {
                    Err(_) => {
                        rep.violation("C12", det("fit_with_statistics panicked"));
                        continue;
                    }
                    Ok(o) => o.expect("single rhs"),
                };
                let fr = out.fit.fin.residuals.clone().unwrap_or_default();
                if fr.is_empty() || fr.iter().any(|v| v.to64() != 0.0) {
                    rep.count("zero_residual_probe_not_exact", 1);
                    continue; // the decomposition was not exact here: no statement
                }
                rep.count("zero_residual_probes", 1);
                let Some(st) = out.stats else {
                    rep.violation("C12", det("fit_with_statistics returned Err although N > M+P, the fit succeeded (residuals exactly zero) and H^T H is invertible"));
                    continue;
                };
                rep.check("C12", st.wres.iter().all(|v| v.to64() == 0.0), 0.0, || det("weighted_residuals are not the (zero) final residuals"));
                rep.check("C12", st.chi2.to64() == 0.0, 0.0, || det(&format!("reduced_chi2 is {} for residuals that are exactly zero", st.chi2.to64())));
                rep.check("C12", st.rse.to64() == 0.0, 0.0, || det(&format!("regression_standard_error is {} for residuals that are exactly zero", st.rse.to64())));
                rep.check("C13", st.cov.iter().all(|v| v.to64() == 0.0), 0.0, || det("covariance is not sigma^2 (H^T H)^-1 = 0"));
                for (pv, band) in st.bands.iter() {
                    rep.check("C14", band.len() == n && band.iter().all(|v| v.to64() == 0.0), 0.0, || det(&format!("band radius at p={pv} is not t * sqrt(j^T Cov j) = 0")));
                }
            }
        }
    }
}

/// C14: a sample at which the whole Jacobian row [Phi | (dPhi/dalpha) c] is exactly zero (the fitted
/// curve does not depend on any parameter there) has a band of radius exactly 0 - finite - for every p;
/// the other samples have finite positive radii.  Exactly stationary start: y = Phi c + r with
/// Phi^T r = 0 and (D c)^T r = 0.
fn zero_row_probe<T: Sc>(rep: &mut Report) {
    let phi: Vec<Vec<i64>> = vec![vec![0], vec![1], vec![1], vec![1], vec![1]];
    let dphi: Vec<Vec<i64>> = vec![vec![0], vec![1], vec![-1], vec![2], vec![-2]];
    let r = [5.0f64, 1.0, 1.0, -1.0, -1.0];
    let c = 2.0f64;
    let n = 5usize;
    let fam = FamJ { name: "TAB".into(), m: 1, p: 1, seed: 0 };
    let table = table_of::<T>(&fam, &[0], &phi, &[dphi.clone()], n);
    let xs: Vec<T> = (0..n).map(|i| T::of64(i as f64)).collect();
    let y = DMatrix::from_fn(n, 1, |i, _| T::of64(phi[i][0] as f64 * c + r[i]));
    for par in [false, true] {
        let flav = format!("zero Jacobian row probe {} par={}", T::NAME, par);
        let det = |what: &str| json!({"flavour": flav, "what": what});
        let Ok(prob) = make::<T>(MKind::Table, &fam, &table, &xs, &[0], &y, None, par) else {
            rep.tool_error(format!("cannot build {flav}"));
            continue;
        };
        let out = match catch_unwind(AssertUnwindSafe(|| prob.fit_stats(&stat_cfg::<T>(), &[0.5, 0.9, 0.99], &[]))) {
            Err(_) => {
                rep.violation("C14", det("fit_with_statistics panicked"));
                continue;
            }
            Ok(o) => o.expect("single rhs"),
        };
        if !(out.fit.nfev == 1 && out.fit.termination == "Orthogonal") {
            rep.count("zero_row_probe_left_the_start", 1);
            continue;
        }
        let Some(st) = out.stats else {
            rep.violation("C12", det("fit_with_statistics returned Err on a well determined, successful fit"));
            continue;
        };
        for (pv, band) in st.bands.iter() {
            rep.check("C14", band.len() == n && band[0].to64() == 0.0, 0.0, || {
                det(&format!("radius at the sample with an all-zero Jacobian row is {:?} instead of 0 (p = {pv})", band.first().map(|v| v.to64())))
            });
            rep.check("C14", band.iter().skip(1).all(|v| v.to64().is_finite() && v.to64() > 0.0), 0.0, || det(&format!("radius not finite and positive at the other samples (p = {pv})")));
        }
        rep.count("zero_row_probes", 1);
    }
}

/// C12 with a caller's threshold that truncates part of the spectrum at the solution, on a WELL
/// determined problem: the degrees of freedom are N - M - P (basis functions are counted, not the
/// numerical rank).  Phi = [1 | 1e-3 (i - 2.5)], threshold 0.05: the second singular value is
/// truncated, c = (mean y, 0); D c = c_0 (1,-1,1,-1,1,-1); y = 3 + (1,1,-2,-2,1,1) is exactly
/// stationary; chi2 = 12 / (6 - 2 - 1) = 4.
fn truncated_stats_probe<T: Sc>(rep: &mut Report) {
    let n = 6usize;
    let ramp = |i: usize| 1e-3 * (i as f64 - 2.5);
    let alt = |i: usize| if i % 2 == 0 { 1.0 } else { -1.0 };
    let t = [1.0f64, 1.0, -2.0, -2.0, 1.0, 1.0];
    let entry = TableEntry {
        a: vec![0],
        phi: DMatrix::from_fn(n, 2, |i, j| T::of64(if j == 0 { 1.0 } else { ramp(i) })),
        dphi: vec![DMatrix::from_fn(n, 2, |i, j| T::of64(if j == 0 { alt(i) } else { 0.0 }))],
    };
    let table = Arc::new(Table { n, m: 2, p: 1, entries: vec![entry] });
    let y = DMatrix::from_fn(n, 1, |i, _| T::of64(3.0 + t[i]));
    for par in [false, true] {
        let flav = format!("truncated statistics probe {} par={}", T::NAME, par);
        let det = |what: &str, dv: f64| json!({"flavour": flav, "what": what, "dev": dv});
        let Ok(prob) = build_problem(TableModel::new(table.clone(), &[0]), false, par, &y, None, Some(T::of64(0.05))) else {
            rep.tool_error(format!("cannot build {flav}"));
            continue;
        };
        let out = match catch_unwind(AssertUnwindSafe(|| prob.fit_stats(&stat_cfg::<T>(), &[0.5], &[]))) {
            Err(_) => {
                rep.violation("C12", det("fit_with_statistics panicked", 0.0));
                continue;
            }
            Ok(o) => o.expect("single rhs"),
        };
        if !(out.fit.nfev == 1 && out.fit.ok) {
            rep.count("truncated_stats_probe_left_the_start", 1);
            continue;
        }
        let Some(st) = out.stats else {
            rep.violation("C12", det("fit_with_statistics returned Err on a well determined, successful fit (truncated solve)", 0.0));
            continue;
        };
        let ss: f64 = st.wres.iter().map(|v| v.to64() * v.to64()).sum();
        let d1 = (ss - 12.0).abs() / 12.0;
        rep.check("C12", d1 <= T::tol(), d1, || det("weighted residuals are not those of the truncated solution (|r|^2 = 12)", d1));
        let d2 = (st.chi2.to64() - 4.0).abs() / 4.0;
        rep.check("C12", d2 <= T::tol(), d2, || det("reduced_chi2 != |r_w|^2 / (N - M - P) = 4 when the solve is truncated (the numerical rank is not the count)", d2));
        let d3 = (st.rse.to64() - 2.0).abs() / 2.0;
        rep.check("C12", d3 <= T::tol(), d3, || det("regression_standard_error != 2", d3));
        rep.count("truncated_stats_probes", 1);
    }
}

/// Beyond the universe TLC enumerates (32-bit determinants stop at M+P = 4): a fit with M = 7 basis
/// functions and one nonlinear parameter (8 x 8 covariance), N = 58 (50 degrees of freedom, tabulated).
/// No exact oracle: certificates computed from the RETURNED parameters and coefficients with the
/// harness' own model - chi2 (N-M-P) = |r_w|^2, Cov (H^T H) = chi2 I, variances = diagonal, correlation
/// from the covariance, band = t sqrt(h_i^T Cov h_i).
fn stats_certificate_probe(rep: &mut Report) {
    type T = f64;
    let (n, h) = (58usize, 3usize);
    let m = 2 * h + 1;
    let tq50 = [0.679428, 1.010755, 1.675905, 2.008559, 2.677793];
    let ps = [0.5, 0.683, 0.9, 0.95, 0.99];
    // (third variant: the same data in an extreme unit, 2^-268: coefficients and the nonlinear columns of H
    // are tiny, covariance entries spread over 2^-536 .. 1; the correlation matrix is not judged there - the
    // pinned normalisation sqrt(c_ii c_jj) itself loses precision below 1e-154)
    for (weighted, yexp) in [(false, 0i32), (true, 0), (false, -268)] {
        let ysc = (2.0f64).powi(yexp);
        let model0 = FourierModel::<T>::new(n, h, 1.0);
        let w: Option<Vec<T>> = if weighted { Some((0..n).map(|i| 0.5 + ((i * 7) % 11) as f64 / 8.0).collect()) } else { None };
        let pt = model0.phi64(1.03);
        let y = DMatrix::from_fn(n, 1, |i, _| {
            let mut v = 0.0;
            for j in 0..m {
                v += pt[(i, j)] * (((j * 5) % 7) as f64 - 2.5) / (1.0 + j as f64);
            }
            (v + 0.02 * (((i * 13) % 17) as f64 - 8.0)) * ysc
        });
        let flav = format!("statistics certificate probe M={} P=1 N={} weighted={} data x 2^{}", m, n, weighted, yexp);
        let det = |what: &str, dv: f64| json!({"flavour": flav, "what": what, "dev": dv});
        let Ok(prob) = build_problem(FourierModel::<T>::new(n, h, 1.0), false, false, &y, w.as_deref(), None) else {
            rep.tool_error(format!("cannot build {flav}"));
            continue;
        };
        let out = match catch_unwind(AssertUnwindSafe(|| prob.fit_stats(&LmCfg::default(), &ps, &[]))) {
            Err(_) => {
                rep.violation("C12", det("fit_with_statistics panicked", 0.0));
                continue;
            }
            Ok(o) => o.expect("single rhs"),
        };
        let (Some(st), Some(c)) = (out.stats, out.fit.fin.coeffs.as_ref()) else {
            rep.count("stats_certificate_probe_fit_failed", 1);
            continue;
        };
        let wv = out.fit.fin.params[0];
        let wi = |i: usize| w.as_ref().map(|w| w[i]).unwrap_or(1.0);
        let phi = model0.phi64(wv);
        let dm = {
            use varpro::model::SeparableNonlinearModel;
            let mut mm = FourierModel::<T>::new(n, h, wv);
            let _ = mm.set_params(nalgebra::DVector::from_element(1, wv));
            mm.eval_partial_deriv(0).expect("derivative")
        };
        let k = m + 1;
        // unweighted rows h_i = [Phi_i | D_i c], weighted H = W h
        let hrow = |i: usize, j: usize| if j < m { phi[(i, j)] } else { (0..m).map(|l| dm[(i, l)] * c[(l, 0)]).sum::<f64>() };
        let mut g = DMatrix::<f64>::zeros(k, k);
        for a in 0..k {
            for b in 0..k {
                g[(a, b)] = (0..n).map(|i| wi(i) * wi(i) * hrow(i, a) * hrow(i, b)).sum();
            }
        }
        let ss: f64 = st.wres.iter().map(|v| v * v).sum();
        let dof = (n - k) as f64;
        let dchi = (st.chi2 * dof - ss).abs() / ss.max(1e-300);
        rep.check("C12", dchi <= 1e-9, dchi, || det("reduced_chi2 (N-M-P) != |weighted residuals|^2", dchi));
        if st.cov.nrows() != k || st.cov.ncols() != k {
            rep.violation("C13", det("covariance shape", 0.0));
            continue;
        }
        // (compared after undoing the scaling of the nonlinear column, so that the cancellations in the
        // product happen between numbers of one magnitude)
        let sof = |a: usize| if a < m { 1.0 } else { ysc };
        let cov_u = DMatrix::from_fn(k, k, |a, b| st.cov[(a, b)] * sof(a) * sof(b));
        let g_u = DMatrix::from_fn(k, k, |a, b| g[(a, b)] / (sof(a) * sof(b)));
        let prod = &cov_u * &g_u;
        let mut worst = 0.0f64;
        for a in 0..k {
            for b in 0..k {
                let e = if a == b { st.chi2 } else { 0.0 };
                worst = nmax(worst, (prod[(a, b)] - e).abs() / st.chi2.abs().max(1e-300));
            }
        }
        rep.check("C13", worst <= 1e-6, worst, || det("Cov (H^T H) != sigma^2 I with H rebuilt from the returned parameters and coefficients (order: coefficients, then alpha)", worst));
        let diag_ok = (0..m).all(|i| st.lin_var[i].to_bits() == st.cov[(i, i)].to_bits()) && st.nonlin_var.len() == 1 && st.nonlin_var[0].to_bits() == st.cov[(m, m)].to_bits();
        rep.check("C13", diag_ok, 0.0, || det("variance accessors are not the diagonal blocks", 0.0));
        let mut wc = 0.0f64;
        for a in 0..k {
            for b in 0..k {
                let e = st.cov[(a, b)] / (st.cov[(a, a)] * st.cov[(b, b)]).sqrt();
                wc = nmax(wc, (st.corr[(a, b)] - e).abs());
            }
        }
        if yexp == 0 {
            rep.check("C13", wc <= 1e-9, wc, || det("correlation differs from cov_ij / sqrt(cov_ii cov_jj)", wc));
        }
        for (pi, (pv, band)) in st.bands.iter().enumerate() {
            let mut wb = 0.0f64;
            let mut scale = 0.0f64;
            for i in 0..n.min(band.len()) {
                let mut q = 0.0;
                for a in 0..k {
                    for b in 0..k {
                        q += hrow(i, a) * st.cov[(a, b)] * hrow(i, b);
                    }
                }
                let e = tq50[pi] * q.max(0.0).sqrt();
                scale = scale.max(e);
                wb = nmax(wb, (band[i] - e).abs());
            }
            let dv = wb / scale.max(1e-300);
            rep.check("C14", band.len() == n && dv <= 2e-4, dv, || det(&format!("band radius at p={pv} differs from t(50) sqrt(h_i^T Cov h_i) (unweighted rows)"), dv));
        }
        rep.count("stats_certificate_probes", 1);
    }
}

pub fn run(path: &str) -> Report {
    let st = crate::export::read_tagged(path, "VPST");
    let su = crate::export::read_tagged(path, "VPSU");
    let mut total = Report::new();
    zero_residual_probes::<f64>(&mut total);
    zero_residual_probes::<f32>(&mut total);
    zero_row_probe::<f64>(&mut total);
    zero_row_probe::<f32>(&mut total);
    stats_certificate_probe(&mut total);
    truncated_stats_probe::<f64>(&mut total);
    truncated_stats_probe::<f32>(&mut total);
    let reps: Vec<Report> = st
        .par_iter()
        .enumerate()
        .map(|(idx, raw)| {
            let mut rep = Report::new();
            match serde_json::from_str::<StLine>(raw) {
                Ok(l) => {
                    judge_stationary::<f64>(idx, &l, &mut rep);
                    judge_stationary::<f32>(idx, &l, &mut rep);
                    rep.count("sequences", 1);
                    rep.count(&format!("shape_M{}_P{}_nu{}", l.fam.m, l.fam.p, l.nu), 1);
                    if idx % 499 == 0 {
                        rep.sample(json!({"fam": l.fam.name, "M": l.fam.m, "P": l.fam.p, "x": l.x, "w": l.w, "a": l.a, "c": l.c, "r0": l.r0, "y": l.y,
                                          "nu": l.nu, "rr": l.rr, "detH": l.deth, "adj": l.adj}));
                    }
                }
                Err(e) => rep.tool_error(format!("malformed VPST line {idx}: {e}")),
            }
            rep
        })
        .collect();
    for r in reps {
        total.merge(r);
    }
    let reps: Vec<Report> = su
        .par_iter()
        .enumerate()
        .map(|(idx, raw)| {
            let mut rep = Report::new();
            match serde_json::from_str::<SuLine>(raw) {
                Ok(l) => {
                    judge_under::<f64>(idx, &l, &mut rep);
                    judge_under::<f32>(idx, &l, &mut rep);
                    rep.count("underdetermined_instances", 1);
                }
                Err(e) => rep.tool_error(format!("malformed VPSU line {idx}: {e}")),
            }
            rep
        })
        .collect();
    for r in reps {
        total.merge(r);
    }
    total
}
