//! C08: construction, updates, fitting and statistics always return - no panic, no hang.
//! Scenarios run in a child process under a watchdog; a panic (caught) or a hang (child killed)
//! is data.  Two scenario kinds:
//!   float: placements of IEEE special values enumerated by spec/VPFloat.tla with definite
//!          predictions (fit must fail when the weighted basis/data certainly are non-finite)
//!   fit:   ordinary model families from random / special starts and degenerate shapes
use crate::expmodels::*;
use crate::fittrace::{make_problem, RunSpec};
use crate::models::*;
use crate::prob::*;
use crate::report::Report;
use crate::sc::*;
use nalgebra::{DMatrix, DVector, Dyn, OMatrix, OVector};
use rand::rngs::StdRng;
use rand::{Rng, SeedableRng};
use serde::{Deserialize, Serialize};
use serde_json::json;
use std::io::{BufRead, BufReader, Write};
use std::panic::{catch_unwind, AssertUnwindSafe};
use std::process::{Command, Stdio};
use std::sync::mpsc;
use std::time::Duration;
use varpro::prelude::*;

#[derive(Serialize, Deserialize, Debug, Clone)]
pub struct SpecialJ {
    #[serde(rename = "where")]
    pub where_: String,
    pub i: usize,
    pub j: usize,
    pub cls: String,
}
#[derive(Serialize, Deserialize, Debug, Clone)]
pub struct FloatLine {
    #[serde(rename = "N")]
    pub n: usize,
    #[serde(rename = "M")]
    pub m: usize,
    #[serde(rename = "S")]
    pub s: usize,
    pub weighted: bool,
    pub specials: Vec<SpecialJ>,
    pub absent0: bool,
    pub absent1: bool,
    pub fit_must_fail: bool,
}

#[derive(Serialize, Deserialize, Debug, Clone)]
#[serde(tag = "kind")]
pub enum Scenario {
    #[serde(rename = "float")]
    Float { line: FloatLine, rep: usize, scalar: String, built: bool },
    #[serde(rename = "fit")]
    Fit {
        fam: String,
        n: usize,
        s: usize,
        /// f64 bit patterns (JSON cannot carry NaN / infinities)
        start: Vec<u64>,
        scalar: String,
        built: bool,
        par: bool,
        patience: usize,
        stepbound: f64,
        weighted: bool,
        stats: bool,
        special_y: Option<(usize, u64)>,
        special_w: Option<(usize, u64)>,
        special_x: Option<(usize, u64)>,
        eps: Option<f64>,
    },
}

#[derive(Serialize, Deserialize, Debug, Clone)]
pub struct StepOut {
    pub name: String,
    pub outcome: String,
}
#[derive(Serialize, Deserialize, Debug, Clone)]
pub struct ScenOut {
    pub idx: usize,
    pub steps: Vec<StepOut>,
    pub present0: Option<bool>,
    pub present1: Option<bool>,
    pub fit_ok: Option<bool>,
}

// ------------------------------------------------------------------------------------------
// two point model for float placements
// ------------------------------------------------------------------------------------------
#[derive(Clone)]
struct TwoPoint<T: Sc> {
    phi0: DMatrix<T>,
    phi1: DMatrix<T>,
    d0: DMatrix<T>,
    d1: DMatrix<T>,
    a0: T,
    params: DVector<T>,
}
impl<T: Sc> TwoPoint<T> {
    fn at0(&self) -> bool {
        self.params.len() == 1 && self.params[0].bits() == self.a0.bits()
    }
}
impl<T: Sc> SeparableNonlinearModel for TwoPoint<T> {
    type ScalarType = T;
    type Error = MErr;
    fn parameter_count(&self) -> usize {
        1
    }
    fn base_function_count(&self) -> usize {
        self.phi0.ncols()
    }
    fn output_len(&self) -> usize {
        self.phi0.nrows()
    }
    fn set_params(&mut self, parameters: OVector<T, Dyn>) -> Result<(), MErr> {
        self.params = parameters;
        Ok(())
    }
    fn params(&self) -> OVector<T, Dyn> {
        self.params.clone()
    }
    fn eval(&self) -> Result<OMatrix<T, Dyn, Dyn>, MErr> {
        Ok(if self.at0() { self.phi0.clone() } else { self.phi1.clone() })
    }
    fn eval_partial_deriv(&self, _k: usize) -> Result<OMatrix<T, Dyn, Dyn>, MErr> {
        Ok(if self.at0() { self.d0.clone() } else { self.d1.clone() })
    }
}

fn representative(cls: &str, rep: usize, is32: bool) -> f64 {
    let r = rep % 2;
    match cls {
        "Z" => [0.0, -0.0][r],
        "H" => {
            if is32 {
                [f32::MAX as f64, -1e38][r]
            } else {
                [f64::MAX, -1e300][r]
            }
        }
        "T" => {
            if is32 {
                [1e-45, -(f32::MIN_POSITIVE as f64)][r]
            } else {
                [5e-324, -f64::MIN_POSITIVE][r]
            }
        }
        "PI" => f64::INFINITY,
        "NI" => f64::NEG_INFINITY,
        "NaN" => f64::NAN,
        _ => panic!("class {cls}"),
    }
}

fn step<R>(steps: &mut Vec<StepOut>, name: &str, f: impl FnOnce() -> (R, &'static str)) -> Option<R> {
    match catch_unwind(AssertUnwindSafe(f)) {
        Ok((r, o)) => {
            steps.push(StepOut {
                name: name.into(),
                outcome: o.into(),
            });
            Some(r)
        }
        Err(_) => {
            steps.push(StepOut {
                name: name.into(),
                outcome: "panic".into(),
            });
            None
        }
    }
}

fn run_float<T: Sc>(idx: usize, l: &FloatLine, rep: usize, built: bool) -> ScenOut {
    let is32 = T::NAME == "f32";
    let base = |i: usize, j: usize, salt: usize| -> f64 { (((i * 7 + j * 5 + salt * 3 + i * j) % 5) as f64) - 2.0 + if i == j { 3.0 } else { 0.0 } };
    let mut phi0 = DMatrix::from_fn(l.n, l.m, |i, j| T::of64(base(i, j, 0)));
    let mut phi1 = DMatrix::from_fn(l.n, l.m, |i, j| T::of64(base(i, j, 1)));
    let mut d0 = DMatrix::from_fn(l.n, l.m, |i, j| T::of64(base(i, j, 2)));
    let d1 = DMatrix::from_fn(l.n, l.m, |i, j| T::of64(base(i, j, 3)));
    let mut y = DMatrix::from_fn(l.n, l.s, |i, s| T::of64(base(i, s, 4) + 0.5));
    let mut w: Vec<T> = (0..l.n).map(|i| T::of64(1.0 + (i % 2) as f64)).collect();
    let mut a0 = T::of64(0.5);
    let a1 = T::of64(1.5);
    for sp in &l.specials {
        let v = T::of64(representative(&sp.cls, rep, is32));
        match sp.where_.as_str() {
            "phi0" => phi0[(sp.i - 1, sp.j - 1)] = v,
            "phi1" => phi1[(sp.i - 1, sp.j - 1)] = v,
            "d0" => d0[(sp.i - 1, sp.j - 1)] = v,
            "y" => y[(sp.i - 1, sp.j - 1)] = v,
            "w" => w[sp.i - 1] = v,
            "a0" => a0 = v,
            other => panic!("position {other}"),
        }
    }
    let model = TwoPoint {
        phi0,
        phi1,
        d0,
        d1,
        a0,
        params: DVector::from_element(1, a0),
    };
    let _ = built;
    let wopt: Option<&[T]> = if l.weighted { Some(&w) } else { None };
    let mrhs = l.s >= 2;
    let mut steps = Vec::new();
    let mut out = ScenOut {
        idx,
        steps: vec![],
        present0: None,
        present1: None,
        fit_ok: None,
    };
    let cfg = LmCfg {
        patience: 3,
        ..LmCfg::default()
    };
    // build -> queries -> update -> queries -> back -> fit
    let prob = step(&mut steps, "build", || match build_problem(model.clone(), mrhs, rep % 4 >= 2, &y, wopt, None) {
        Ok(p) => (Some(p), "ok"),
        Err(_) => (None, "err"),
    })
    .flatten();
    if let Some(mut prob) = prob {
        out.present0 = step(&mut steps, "query0", || {
            let pres = prob.coeffs().is_some();
            let _ = prob.residuals();
            let _ = prob.jacobian();
            (pres, "ok")
        });
        step(&mut steps, "set_a1", || {
            prob.set_params(&[a1]);
            ((), "ok")
        });
        out.present1 = step(&mut steps, "query1", || {
            let pres = prob.coeffs().is_some();
            let _ = prob.residuals();
            let _ = prob.jacobian();
            (pres, "ok")
        });
        step(&mut steps, "set_a0", || {
            prob.set_params(&[a0]);
            ((), "ok")
        });
        let fo = step(&mut steps, "fit", || {
            let fo = prob.fit(&cfg);
            let o = if fo.ok { "ok" } else { "err" };
            (fo, o)
        });
        if let Some(fo) = fo {
            out.fit_ok = Some(fo.ok);
            step(&mut steps, "best_fit", || {
                let f = fo.problem.finish();
                ((), if f.best_fit.is_some() { "ok" } else { "none" })
            });
        }
    }
    if !mrhs {
        let prob2 = step(&mut steps, "build2", || match build_problem(model.clone(), false, false, &y, wopt, None) {
            Ok(p) => (Some(p), "ok"),
            Err(_) => (None, "err"),
        })
        .flatten();
        if let Some(p2) = prob2 {
            step(&mut steps, "fit_with_statistics", || {
                let o = p2.fit_stats(&cfg, &[0.5, 0.9], &[]).expect("single rhs");
                let ok = o.stats.is_some();
                if out.fit_ok.is_none() {
                    out.fit_ok = Some(o.fit.ok);
                }
                ((), if ok { "ok" } else { "err" })
            });
        }
    }
    out.steps = steps;
    out
}

fn run_fit<T: Sc>(idx: usize, sc: &Scenario) -> ScenOut {
    let Scenario::Fit {
        fam,
        n,
        s,
        start,
        built,
        par,
        patience,
        stepbound,
        weighted,
        stats,
        special_y,
        special_w,
        special_x,
        eps,
        ..
    } = sc
    else {
        unreachable!()
    };
    let mut x: Vec<T> = (0..*n).map(|i| T::of64(10.0 * i as f64 / ((*n as f64) - 1.0).max(1.0))).collect();
    if let Some((i, v)) = special_x {
        if *i < x.len() {
            x[*i] = T::of64(f64::from_bits(*v));
        }
    }
    let (m, _p) = exp_shape(fam);
    let truth: Vec<T> = match fam.as_str() {
        "SExpOff" => vec![T::of64(2.0)],
        "DExp" | "DExpOff" => vec![T::of64(1.0), T::of64(4.0)],
        "TExp" => vec![T::of64(0.7), T::of64(2.5), T::of64(9.0)],
        _ => vec![T::of64(5.0), T::of64(1.0), T::of64(3.0)],
    };
    let mut y = DMatrix::from_fn(*n, *s, |i, sc| {
        let mut v = 0.0;
        for j in 0..m {
            v += (1.0 + j as f64 + 0.5 * sc as f64) * exp_phi(fam, x[i], j, &truth).to64();
        }
        T::of64(v + 0.01 * (((i * 31 + sc * 17) % 11) as f64 - 5.0))
    });
    if let Some((i, v)) = special_y {
        if *i < *n {
            y[(*i, 0)] = T::of64(f64::from_bits(*v));
        }
    }
    let mut w: Option<Vec<T>> = if *weighted { Some((0..*n).map(|i| T::of64(0.5 + (i % 4) as f64 * 0.5)).collect()) } else { None };
    if let (Some((i, v)), Some(wv)) = (special_w, w.as_mut()) {
        if *i < wv.len() {
            wv[*i] = T::of64(f64::from_bits(*v));
        }
    }
    let rs = RunSpec::<T> {
        label: String::new(),
        fam: fam.clone(),
        built: *built,
        x,
        y,
        w,
        start: start.iter().map(|v| T::of64(f64::from_bits(*v))).collect(),
        mrhs: *s >= 2,
        par: *par,
        cfg: LmCfg {
            patience: *patience,
            stepbound: *stepbound,
            ..LmCfg::default()
        },
        with_stats: *stats && *s == 1,
        caller_ops: vec![],
        fault: None,
        do_fit: true,
        cert: None,
        threads: 2,
        post_jac: idx % 2 == 1,
        refit: idx % 4 == 3,
        eps: eps.map(T::of64),
        weights_first: idx % 2 == 0,
    };
    let mut steps = Vec::new();
    let mut out = ScenOut {
        idx,
        steps: vec![],
        present0: None,
        present1: None,
        fit_ok: None,
    };
    let prob = step(&mut steps, "build", || match make_problem(&rs, &rs.start, None) {
        Ok(p) => (Some(p), "ok"),
        Err(_) => (None, "err"),
    })
    .flatten();
    if let Some(prob) = prob {
        out.present0 = Some(prob.coeffs().is_some());
        if rs.with_stats {
            step(&mut steps, "fit_with_statistics", || {
                let o = prob.fit_stats(&rs.cfg, &[0.9], &[]).expect("single rhs");
                out.fit_ok = Some(o.fit.ok);
                ((), if o.stats.is_some() { "ok" } else { "err" })
            });
        } else {
            let fo = step(&mut steps, "fit", || {
                let fo = prob.fit(&rs.cfg);
                let o = if fo.ok { "ok" } else { "err" };
                (fo, o)
            });
            if let Some(fo) = fo {
                out.fit_ok = Some(fo.ok);
                step(&mut steps, "best_fit", || {
                    let f = fo.problem.finish();
                    ((), if f.best_fit.is_some() { "ok" } else { "none" })
                });
            }
        }
    }
    out.steps = steps;
    out
}

pub fn run_scenario(idx: usize, sc: &Scenario) -> ScenOut {
    match sc {
        Scenario::Float { line, rep, scalar, built } => {
            if scalar == "f32" {
                run_float::<f32>(idx, line, *rep, *built)
            } else {
                run_float::<f64>(idx, line, *rep, *built)
            }
        }
        Scenario::Fit { scalar, .. } => {
            if scalar == "f32" {
                run_fit::<f32>(idx, sc)
            } else {
                run_fit::<f64>(idx, sc)
            }
        }
    }
}

/// child: run scenarios [from, to) of the file, one result line each, preceded by START lines
pub fn child(path: &str, from: usize, to: usize) {
    let f = std::fs::File::open(path).expect("scenario file");
    let out = std::io::stdout();
    for (idx, line) in BufReader::new(f).lines().enumerate() {
        if idx < from || idx >= to {
            continue;
        }
        let line = line.expect("read");
        let sc: Scenario = serde_json::from_str(&line).expect("scenario json");
        {
            let mut o = out.lock();
            writeln!(o, "START {}", idx).unwrap();
            o.flush().unwrap();
        }
        let r = run_scenario(idx, &sc);
        let mut o = out.lock();
        writeln!(o, "RESULT {}", serde_json::to_string(&r).unwrap()).unwrap();
        o.flush().unwrap();
    }
}

fn seed_from_env() -> u64 {
    std::env::var("VERIF_SEED").ok().and_then(|s| s.parse().ok()).unwrap_or(1)
}

fn gen_fit_scenarios(count: usize, rng: &mut StdRng) -> Vec<Scenario> {
    let fams = ["DExp", "DExpOff", "TExp", "GaussExpOff", "SExpOff"];
    let specials = [f64::NAN, f64::INFINITY, f64::NEG_INFINITY, f64::MAX, -f64::MAX, 5e-324, -0.0, 1e300, 1e-300, 0.0];
    let mut v = Vec::new();
    for i in 0..count {
        let fam = fams[i % fams.len()];
        let (m, p) = exp_shape(fam);
        // degenerate shapes every few scenarios: N in 1..M+P+1
        let n = if i % 7 == 3 { 1 + (i / 7) % (m + p + 1) } else { 20 + (i % 5) * 10 };
        let mut start: Vec<f64> = (0..p).map(|_| rng.gen_range(-10.0..10.0)).collect();
        if i % 9 == 4 {
            start[i % p] = specials[(i / 9) % specials.len()];
        }
        let pick = |k: usize| -> Option<(usize, u64)> { Some((k % n.max(1), specials[(k / 3) % specials.len()].to_bits())) };
        v.push(Scenario::Fit {
            fam: fam.to_string(),
            n,
            s: [1, 1, 2, 3][i % 4],
            start: start.iter().map(|v| v.to_bits()).collect(),
            scalar: if i % 5 == 1 { "f32".into() } else { "f64".into() },
            built: i % 2 == 0,
            par: i % 6 == 5,
            patience: [100, 3, 1, 100][i % 4],
            stepbound: [100.0, 0.1, 1e6, 100.0][(i / 2) % 4],
            weighted: i % 3 != 0,
            stats: i % 4 == 1,
            special_y: if i % 11 == 6 { pick(i) } else { None },
            special_w: if i % 13 == 7 { pick(i + 1) } else { None },
            special_x: if i % 17 == 8 { pick(i + 2) } else { None },
            // a caller's singular value threshold of exactly zero ("truncate nothing"), tiny, or negative zero
            eps: match i % 9 { 4 => Some(0.0), 7 => Some(-0.0), 2 if i % 2 == 0 => Some(1e-300), _ => None },
        });
    }
    // sample counts far beyond everything else (anything quadratic in N - an N x N intermediate - cannot be
    // allocated or takes minutes): single decay plus offset, start next to the generating parameter,
    // fit_with_statistics
    for (n, scalar) in [(100_000usize, "f64"), (70_000, "f32")] {
        v.push(Scenario::Fit {
            fam: "SExpOff".to_string(),
            n,
            s: 1,
            start: vec![2.05f64.to_bits()],
            scalar: scalar.into(),
            built: true,
            par: false,
            patience: 100,
            stepbound: 100.0,
            weighted: n % 3 == 1,
            stats: true,
            special_y: None,
            special_w: None,
            special_x: None,
            eps: None,
        });
    }
    v
}

pub fn run(export: &str, stride: usize, fits: usize, timeout_s: u64) -> Report {
    let mut rep = Report::new();
    let seed = seed_from_env();
    let mut rng = StdRng::seed_from_u64(seed.wrapping_mul(104729));
    // scenario list
    let lines = crate::export::read_tagged(export, "VPFL");
    let mut scenarios: Vec<Scenario> = Vec::new();
    let off = (seed as usize) % stride.max(1);
    for (i, raw) in lines.iter().enumerate() {
        if i % stride.max(1) != off {
            continue;
        }
        let l: FloatLine = match serde_json::from_str(raw) {
            Ok(l) => l,
            Err(e) => {
                rep.tool_error(format!("malformed VPFL line {i}: {e}"));
                continue;
            }
        };
        scenarios.push(Scenario::Float {
            line: l,
            rep: i + seed as usize,
            scalar: if i % 4 == 1 { "f32".into() } else { "f64".into() },
            built: false,
        });
    }
    let nfloat = scenarios.len();
    scenarios.extend(gen_fit_scenarios(fits, &mut rng));
    rep.count("float_placements", nfloat as u64);
    rep.count("fit_scenarios", (scenarios.len() - nfloat) as u64);
    let dir = std::env::temp_dir().join(format!("vph-c08-{}", std::process::id()));
    std::fs::create_dir_all(&dir).unwrap();
    let file = dir.join("scenarios.ndjson");
    {
        let mut f = std::io::BufWriter::new(std::fs::File::create(&file).unwrap());
        for s in &scenarios {
            writeln!(f, "{}", serde_json::to_string(s).unwrap()).unwrap();
        }
    }
    // run in parallel slices, each slice in its own supervised child
    let exe = std::env::current_exe().unwrap();
    let nworkers = 12usize;
    let total = scenarios.len();
    let chunk = (total + nworkers - 1) / nworkers.max(1);
    let results: Vec<(Vec<ScenOut>, Vec<usize>)> = std::thread::scope(|sc| {
        let mut hs = Vec::new();
        for wk in 0..nworkers {
            let (exe, file) = (exe.clone(), file.clone());
            hs.push(sc.spawn(move || {
                let lo = wk * chunk;
                let hi = ((wk + 1) * chunk).min(total);
                let mut outs = Vec::new();
                let mut hangs = Vec::new();
                let mut next = lo;
                while next < hi {
                    let mut ch = Command::new(&exe)
                        .args(["c08child", file.to_str().unwrap(), &next.to_string(), &hi.to_string()])
                        .stdout(Stdio::piped())
                        .stderr(Stdio::null())
                        .spawn()
                        .expect("spawn child");
                    let stdout = ch.stdout.take().unwrap();
                    let (tx, rx) = mpsc::channel::<String>();
                    let reader = std::thread::spawn(move || {
                        for l in BufReader::new(stdout).lines().map_while(Result::ok) {
                            if tx.send(l).is_err() {
                                break;
                            }
                        }
                    });
                    let mut current: Option<usize> = None;
                    let mut finished = false;
                    loop {
                        match rx.recv_timeout(Duration::from_secs(timeout_s)) {
                            Ok(l) => {
                                if let Some(r) = l.strip_prefix("START ") {
                                    current = r.trim().parse().ok();
                                } else if let Some(r) = l.strip_prefix("RESULT ") {
                                    if let Ok(o) = serde_json::from_str::<ScenOut>(r) {
                                        next = o.idx + 1;
                                        outs.push(o);
                                        current = None;
                                    }
                                }
                            }
                            Err(mpsc::RecvTimeoutError::Timeout) => {
                                // watchdog: the scenario in progress does not return
                                let _ = ch.kill();
                                let h = current.unwrap_or(next);
                                hangs.push(h);
                                next = h + 1;
                                break;
                            }
                            Err(mpsc::RecvTimeoutError::Disconnected) => {
                                finished = true;
                                break;
                            }
                        }
                    }
                    let status = ch.wait();
                    let _ = reader.join();
                    if finished {
                        // child ended: normally (all done) or by abort / stack overflow in a scenario
                        let ok = status.map(|s| s.success()).unwrap_or(false);
                        if ok {
                            next = hi;
                        } else {
                            let h = current.unwrap_or(next);
                            outs.push(ScenOut {
                                idx: h,
                                steps: vec![StepOut {
                                    name: "process".into(),
                                    outcome: "abort".into(),
                                }],
                                present0: None,
                                present1: None,
                                fit_ok: None,
                            });
                            next = h + 1;
                        }
                    }
                }
                (outs, hangs)
            }));
        }
        hs.into_iter().map(|h| h.join().unwrap()).collect()
    });
    let _ = std::fs::remove_dir_all(&dir);
    // verdicts
    for (outs, hangs) in results {
        for h in hangs {
            let sc = &scenarios[h];
            rep.violation("C08", json!({"what": format!("call did not return within {timeout_s}s (watchdog)"), "scenario": sc, "key": scenario_key(sc)}));
        }
        for o in outs {
            let sc = &scenarios[o.idx];
            rep.count("scenarios_run", 1);
            let bad: Vec<&StepOut> = o.steps.iter().filter(|s| s.outcome == "panic" || s.outcome == "abort").collect();
            if !bad.is_empty() {
                rep.violation("C08", json!({"what": format!("{} in step {}", bad[0].outcome, bad[0].name), "scenario": sc, "steps": o.steps, "key": scenario_key(sc)}));
                continue;
            }
            rep.ok("C08", 0.0);
            if let Scenario::Float { line, .. } = sc {
                if line.fit_must_fail {
                    rep.count("definite_predictions", 1);
                    rep.check("C08", o.fit_ok != Some(true), 0.0, || {
                        json!({"what": "fit succeeded although the weighted basis matrix / data certainly contain a non-finite value", "scenario": sc, "steps": o.steps})
                    });
                }
                if line.absent0 && o.present0 == Some(true) {
                    rep.count("spec_drift_absent0", 1);
                }
                if line.absent1 && o.present1 == Some(true) {
                    rep.count("spec_drift_absent1", 1);
                }
            }
            for s in &o.steps {
                rep.count(&format!("step_{}_{}", s.name, s.outcome), 1);
            }
            if o.idx % 1009 == 0 {
                rep.sample(json!({"scenario": sc, "steps": o.steps}));
            }
        }
    }
    rep
}

fn scenario_key(sc: &Scenario) -> String {
    match sc {
        Scenario::Float { line, rep, scalar, .. } => format!(
            "float N={} M={} S={} w={} {} rep={} {}",
            line.n,
            line.m,
            line.s,
            line.weighted,
            line.specials.iter().map(|s| format!("{}[{},{}]={}", s.where_, s.i, s.j, s.cls)).collect::<Vec<_>>().join("+"),
            rep % 4,
            scalar
        ),
        Scenario::Fit { fam, n, start, scalar, .. } => format!(
            "fit {} N={} start={:?} {}",
            fam,
            n,
            start.iter().map(|b| f64::from_bits(*b)).collect::<Vec<_>>(),
            scalar
        ),
    }
}
