//! C16 / C17: walks over the labelled transition graph exported by spec/VPModel.tla, stepped
//! through a real builder-made SeparableModel with positional closures.
use crate::report::Report;
use crate::sc::{bits_eq, Sc};
use nalgebra::{DMatrix, DVector};
use rayon::prelude::*;
use serde::{Deserialize, Serialize};
use serde_json::json;
use std::collections::BTreeMap;
use std::panic::{catch_unwind, AssertUnwindSafe};
use varpro::model::errors::ModelError;
use varpro::model::SeparableModel;
use varpro::prelude::*;

pub const NX: usize = 12;

#[derive(Deserialize, Serialize, Debug, Clone, PartialEq)]
pub struct FunJ {
    pub ps: Vec<String>,
    pub dord: String,
}
#[derive(Deserialize, Serialize, Debug, Clone, PartialEq)]
pub struct BadJ {
    pub j: usize,
    pub which: usize,
    pub how: String,
}
#[derive(Deserialize, Serialize, Debug, Clone, PartialEq)]
pub struct CfgJ {
    pub funs: Vec<FunJ>,
    pub mp: Vec<String>,
    pub bad: BadJ,
}
#[derive(Deserialize, Debug, Clone)]
pub struct ResJ {
    pub ok: bool,
    pub cols: Vec<Vec<i64>>,
    pub errs: Vec<String>,
}
#[derive(Deserialize, Debug, Clone)]
pub struct EdgeJ {
    pub cfg: CfgJ,
    pub from: Vec<i64>,
    pub op: String,
    pub arg: Vec<i64>,
    pub res: ResJ,
    pub to: Vec<i64>,
}

fn out_vec<T: Sc>(args: &[T], tag: i64, how: &str) -> DVector<T> {
    let len = match how {
        "short" => NX - 1,
        "long" => NX + 1,
        "empty" => 0,
        _ => NX,
    };
    let mut v = DVector::from_element(len, T::zero());
    for (i, a) in args.iter().enumerate() {
        if i < len {
            v[i] = *a;
        }
    }
    if args.len() < len {
        v[args.len()] = T::of64(tag as f64);
    }
    v
}

macro_rules! with_arity {
    ($n:expr, $mac:ident) => {
        match $n {
            1 => $mac!(a1),
            2 => $mac!(a1, a2),
            3 => $mac!(a1, a2, a3),
            4 => $mac!(a1, a2, a3, a4),
            5 => $mac!(a1, a2, a3, a4, a5),
            6 => $mac!(a1, a2, a3, a4, a5, a6),
            7 => $mac!(a1, a2, a3, a4, a5, a6, a7),
            8 => $mac!(a1, a2, a3, a4, a5, a6, a7, a8),
            9 => $mac!(a1, a2, a3, a4, a5, a6, a7, a8, a9),
            10 => $mac!(a1, a2, a3, a4, a5, a6, a7, a8, a9, a10),
            other => panic!("unsupported arity {other}"),
        }
    };
}

pub fn build_model<T: Sc>(cfg: &CfgJ) -> Result<SeparableModel<T>, String> {
    let mut b = SeparableModelBuilder::<T>::new(cfg.mp.clone());
    for (j0, f) in cfg.funs.iter().enumerate() {
        let j = j0 + 1;
        let how_f: String = if cfg.bad.j == j && cfg.bad.which == 0 { cfg.bad.how.clone() } else { "ok".into() };
        let ftag = 50 + j as i64;
        if f.ps.is_empty() {
            b = b.invariant_function(move |_x: &DVector<T>| out_vec::<T>(&[], ftag, &how_f));
            continue;
        }
        let r = f.ps.len();
        {
            let how = how_f.clone();
            macro_rules! fun {
                ($($a:ident),+) => { b.function(f.ps.clone(), move |_x: &DVector<T>, $($a: T),+| out_vec(&[$($a),+], ftag, &how)) };
            }
            b = with_arity!(r, fun);
        }
        let order: Vec<usize> = if f.dord == "rev" { (1..=r).rev().collect() } else { (1..=r).collect() };
        for i in order {
            let how: String = if cfg.bad.j == j && cfg.bad.which == i { cfg.bad.how.clone() } else { "ok".into() };
            let dtag = 100 * j as i64 + i as i64;
            let name = f.ps[i - 1].clone();
            macro_rules! der {
                ($($a:ident),+) => { b.partial_deriv(name, move |_x: &DVector<T>, $($a: T),+| out_vec(&[$($a),+], dtag, &how)) };
            }
            b = with_arity!(r, der);
        }
    }
    let p = cfg.mp.len();
    b.independent_variable(DVector::from_fn(NX, |i, _| T::of64(i as f64)))
        .initial_parameters((1..=p).map(|i| T::of64(10.0 + i as f64)).collect())
        .build()
        .map_err(|e| format!("{e:?}"))
}

fn err_kind(e: &ModelError) -> &'static str {
    match e {
        ModelError::UnexpectedFunctionOutput { .. } => "UnexpectedFunctionOutput",
        ModelError::ParameterNotInModel { .. } => "ParameterNotInModel",
        ModelError::DerivativeIndexOutOfBounds { .. } => "DerivativeIndexOutOfBounds",
        ModelError::IncorrectParameterCount { .. } => "IncorrectParameterCount",
    }
}

fn matrix_matches<T: Sc>(m: &DMatrix<T>, cols: &[Vec<i64>]) -> bool {
    if m.nrows() != NX || m.ncols() != cols.len() {
        return false;
    }
    for (j, c) in cols.iter().enumerate() {
        for i in 0..NX {
            let e = if i < c.len() { c[i] as f64 } else { 0.0 };
            if m[(i, j)].to64() != e {
                return false;
            }
        }
    }
    true
}

/// apply one edge to the model; report mismatches
/// `after_misuse`: an earlier step of this path was a rejected call, so a wrong observation now
/// means the rejected call damaged the state (C17) rather than that routing is wrong (C16)
fn apply<T: Sc>(model: &mut SeparableModel<T>, e: &EdgeJ, ctx: &str, after_misuse: bool, rep: &mut Report) {
    let misuse = !e.res.ok;
    let prop = if misuse || after_misuse { "C17" } else { "C16" };
    let c16 = prop;
    let det = |what: &str, got: String| json!({"cfg": e.cfg, "from": e.from, "op": e.op, "arg": e.arg, "expected": {"ok": e.res.ok, "cols": e.res.cols, "errs": e.res.errs}, "what": what, "got": got, "ctx": ctx, "scalar": T::NAME});
    let r = catch_unwind(AssertUnwindSafe(|| match e.op.as_str() {
        "set" => {
            let v = DVector::from_iterator(e.arg.len(), e.arg.iter().map(|&x| T::of64(x as f64)));
            model.set_params(v).map(|_| None)
        }
        "params" => {
            let p = model.params();
            Ok(Some(DMatrix::from_fn(p.len(), 1, |i, _| p[i])))
        }
        "eval" => model.eval().map(Some),
        "deriv" => model.eval_partial_deriv(e.arg[0] as usize).map(Some),
        other => panic!("unknown op {other}"),
    }));
    match r {
        Err(_) => rep.violation(prop, det("panic", "panic".into())),
        Ok(Err(err)) => {
            let k = err_kind(&err);
            if e.res.ok {
                rep.violation(c16, det("error on a correct call", k.into()));
            } else {
                rep.check("C17", e.res.errs.iter().any(|x| x == k), 0.0, || det("inadmissible error kind", k.into()));
            }
        }
        Ok(Ok(val)) => {
            if !e.res.ok {
                rep.violation("C17", det("misuse accepted silently", format!("{:?}", val.as_ref().map(|m| (m.nrows(), m.ncols())))));
                return;
            }
            match (e.op.as_str(), val) {
                ("set", _) => rep.ok(c16, 0.0),
                ("params", Some(m)) => {
                    let got: Vec<f64> = m.iter().map(|v| v.to64()).collect();
                    let exp: Vec<f64> = e.res.cols[0].iter().map(|&v| v as f64).collect();
                    rep.check(c16, got == exp, 0.0, || det("params() differ", format!("{got:?}")));
                }
                ("eval", Some(m)) | ("deriv", Some(m)) => {
                    // C17: successful evaluations have one row per sample and one column per basis function
                    rep.check("C17", m.nrows() == NX && m.ncols() == e.cfg.funs.len(), 0.0, || {
                        det("mis-shaped matrix", format!("{}x{}", m.nrows(), m.ncols()))
                    });
                    if crate::POISON_MODE.load(std::sync::atomic::Ordering::Relaxed) != 0 {
                        // C10: under a poisoning allocator a cell that was never written shows the fill pattern
                        rep.check("C10", matrix_matches(&m, &e.res.cols), 0.0, || {
                            let got: Vec<Vec<f64>> = (0..m.ncols()).map(|j| (0..m.nrows().min(6)).map(|i| m[(i, j)].to64()).collect()).collect();
                            det("a builder-made model returned cells that are not the computed values while fresh memory is filled with a pattern (never written?)", format!("{got:?}"))
                        });
                    }
                    rep.check(c16, matrix_matches(&m, &e.res.cols), 0.0, || {
                        let got: Vec<Vec<f64>> = (0..m.ncols()).map(|j| (0..m.nrows().min(6)).map(|i| m[(i, j)].to64()).collect()).collect();
                        det("matrix differs cell by cell (first 6 rows shown)", format!("{got:?}"))
                    });
                }
                _ => {}
            }
        }
    }
}

fn run_cfg<T: Sc>(cfg: &CfgJ, edges: &[EdgeJ], deep: bool, rep: &mut Report) {
    let init: Vec<i64> = (1..=cfg.mp.len() as i64).map(|i| 10 + i).collect();
    let first = match catch_unwind(AssertUnwindSafe(|| build_model::<T>(cfg))) {
        Ok(Ok(m)) => m,
        Ok(Err(e)) => {
            rep.violation("C16", json!({"cfg": cfg, "what": "valid model specification failed to build", "got": e}));
            return;
        }
        Err(_) => {
            rep.violation("C16", json!({"cfg": cfg, "what": "builder panicked"}));
            return;
        }
    };
    drop(first);
    let from = |s: &Vec<i64>| -> Vec<&EdgeJ> { edges.iter().filter(|e| &e.from == s).collect() };
    // all paths of length 2 (3 when deep), then the state is read back with params / eval / derivs
    for e1 in from(&init) {
        for e2 in from(&e1.to) {
            let thirds: Vec<Option<&EdgeJ>> = if deep { from(&e2.to).into_iter().map(Some).collect() } else { vec![None] };
            for e3 in thirds {
                let mut m = build_model::<T>(cfg).expect("built before");
                apply(&mut m, e1, "step1", false, rep);
                let mut mis = !e1.res.ok;
                apply(&mut m, e2, "step2", mis, rep);
                mis |= !e2.res.ok;
                let mut last = e2;
                if let Some(e3) = e3 {
                    apply(&mut m, e3, "step3", mis, rep);
                    mis |= !e3.res.ok;
                    last = e3;
                }
                // read back: the state must be exactly `last.to`
                for e in from(&last.to) {
                    if e.op != "set" {
                        apply(&mut m, e, "readback", mis, rep);
                    }
                }
                rep.count("paths", 1);
            }
        }
    }
}

/// "parameters set on the model are returned unchanged": every bit of them, and the functions see
/// exactly these values.  Probed with vectors that are EQUAL as numbers but different as bit
/// patterns (+0.0 / -0.0) applied one after the other, and with the extremes of the scalar type.
fn probe_bits<T: Sc>(cfg: &CfgJ, rep: &mut Report) {
    if cfg.bad.j != 0 {
        return;
    }
    let p = cfg.mp.len();
    let Ok(Ok(mut m)) = catch_unwind(AssertUnwindSafe(|| build_model::<T>(cfg))) else {
        return;
    };
    let tiny = if T::NAME == "f64" { f64::from_bits(1) } else { f32::from_bits(1) as f64 };
    let huge = if T::NAME == "f64" { f64::MAX } else { f32::MAX as f64 };
    let vecs: Vec<Vec<T>> = vec![
        (0..p).map(|i| T::of64(if i % 2 == 0 { 0.0 } else { 3.0 + i as f64 })).collect(),
        (0..p).map(|i| T::of64(if i % 2 == 0 { -0.0 } else { 3.0 + i as f64 })).collect(),
        (0..p).map(|i| T::of64(if i % 2 == 0 { 0.0 } else { 3.0 + i as f64 })).collect(),
        (0..p).map(|i| T::of64(if i % 2 == 0 { tiny } else { -huge })).collect(),
        (0..p).map(|i| T::of64(if i % 2 == 0 { -tiny } else { huge })).collect(),
    ];
    for (step, v) in vecs.iter().enumerate() {
        let dv = DVector::from_vec(v.clone());
        let det = |what: &str, got: String| json!({"cfg": cfg, "scalar": T::NAME, "ctx": "bit pattern probe", "step": step, "set": format!("{:?}", v.iter().map(|x| x.to64()).collect::<Vec<_>>()), "what": what, "got": got});
        match catch_unwind(AssertUnwindSafe(|| m.set_params(dv.clone()))) {
            Ok(Ok(())) => {}
            other => {
                rep.violation("C17", det("set_params with a vector of the right length did not return Ok", format!("{:?}", other.map(|r| r.map_err(|e| err_kind(&e))))));
                return;
            }
        }
        let got = m.params();
        rep.check("C16", bits_eq(got.as_slice(), v), 0.0, || det("params() is not bit for bit what was set", format!("{:?}", got.iter().map(|x| x.to64()).collect::<Vec<_>>())));
        // every function puts its arguments, in its own declaration order, into the first cells of its column
        if let Ok(Ok(phi)) = catch_unwind(AssertUnwindSafe(|| m.eval())) {
            let mut ok = true;
            for (j, f) in cfg.funs.iter().enumerate() {
                for (i, name) in f.ps.iter().enumerate() {
                    if let Some(k) = cfg.mp.iter().position(|n| n == name) {
                        if i < phi.nrows() && phi[(i, j)].bits() != v[k].bits() {
                            ok = false;
                        }
                    }
                }
            }
            rep.check("C16", ok, 0.0, || det("a function did not receive the bit patterns of the current parameters", String::new()));
        }
    }
    // derivative indices far out of range: an error value, never a panic (nor a wrap-around)
    for k in [usize::MAX, usize::MAX - 1, usize::MAX / 2 + 1, 1usize << 32, p] {
        let r = catch_unwind(AssertUnwindSafe(|| m.eval_partial_deriv(k).map(|d| (d.nrows(), d.ncols())).map_err(|e| err_kind(&e))));
        rep.check("C17", matches!(r, Ok(Err("DerivativeIndexOutOfBounds"))), 0.0, || {
            json!({"cfg": cfg, "scalar": T::NAME, "ctx": "far out of range derivative index", "index": k.to_string(), "what": "not rejected with DerivativeIndexOutOfBounds", "got": format!("{r:?}")})
        });
    }
    rep.count("bit_pattern_probes", 1);
}

/// Beyond the universe TLC enumerates: models checked by plain indexing.  Function j puts its
/// arguments (in its own declaration order) into the first cells of its column, derivative closures
/// add a tag 100 (j+1) + (position of the parameter in the function's list) behind them.
fn check_cfg_by_indexing<T: Sc>(cfg: &CfgJ, label: &str, deriv_ks: &[usize], rep: &mut Report) {
    let p = cfg.mp.len();
    let det = |what: &str, got: String| json!({"ctx": label, "scalar": T::NAME, "what": what, "got": got});
    let pos_of = |name: &String| cfg.mp.iter().position(|n| n == name).expect("function parameter is a model parameter");
    let mut m = match catch_unwind(AssertUnwindSafe(|| build_model::<T>(cfg))) {
        Ok(Ok(m)) => m,
        other => {
            rep.violation("C16", det("a valid model failed to build", format!("{:?}", other.map(|r| r.map(|_| ())))));
            return;
        }
    };
    // distinct values, exact in both scalar types
    let vals: Vec<T> = (0..p).map(|k| T::of64(1000.0 + k as f64)).collect();
    if !matches!(catch_unwind(AssertUnwindSafe(|| m.set_params(DVector::from_vec(vals.clone())))), Ok(Ok(()))) {
        rep.violation("C17", det("set_params with a vector of the right length failed", String::new()));
        return;
    }
    rep.check("C16", bits_eq(m.params().as_slice(), &vals), 0.0, || det("params() differ from what was set", String::new()));
    match catch_unwind(AssertUnwindSafe(|| m.eval())) {
        Ok(Ok(phi)) => {
            let mut bad = Vec::new();
            for (j, f) in cfg.funs.iter().enumerate() {
                for (s, name) in f.ps.iter().enumerate() {
                    let k = pos_of(name);
                    if phi[(s, j)].bits() != vals[k].bits() && bad.len() < 5 {
                        bad.push(format!("function {} argument {} is {} but parameter {} = {}", j, s, phi[(s, j)].to64(), name, vals[k].to64()));
                    }
                }
            }
            rep.check("C16", bad.is_empty(), 0.0, || det("a function received a value that is not its named parameter", bad.join("; ")));
        }
        other => rep.violation("C16", det("eval() failed", format!("{:?}", other.map(|r| r.map(|_| ()).map_err(|e| err_kind(&e)))))),
    }
    for &k in deriv_ks {
        match catch_unwind(AssertUnwindSafe(|| m.eval_partial_deriv(k))) {
            Ok(Ok(d)) => {
                let mut bad = Vec::new();
                for (j, f) in cfg.funs.iter().enumerate() {
                    let own_pos = f.ps.iter().position(|n| n == &cfg.mp[k]);
                    for i in 0..NX.min(d.nrows()) {
                        let got = d[(i, j)].to64();
                        let exp = match own_pos {
                            None => 0.0,
                            Some(pos) => {
                                if i < f.ps.len() {
                                    vals[pos_of(&f.ps[i])].to64()
                                } else if i == f.ps.len() {
                                    (100 * (j + 1) + pos + 1) as f64
                                } else {
                                    0.0
                                }
                            }
                        };
                        if got != exp && bad.len() < 5 {
                            bad.push(format!("d/d{} column {} row {}: {} instead of {}", cfg.mp[k], j, i, got, exp));
                        }
                    }
                }
                rep.check("C16", bad.is_empty(), 0.0, || det("derivative column misplaced or evaluated with wrong arguments", bad.join("; ")));
            }
            other => rep.violation("C16", det(&format!("eval_partial_deriv({k}) failed"), format!("{:?}", other.map(|r| r.map(|_| ()).map_err(|e| err_kind(&e)))))),
        }
    }
}

/// a model with 300 parameters (positions beyond 255 and beyond any small fixed-size index type),
/// covered by 30 functions of arity 10 whose declaration order is a scrambled stride through the list
fn probe_large<T: Sc>(rep: &mut Report) {
    let p = 300usize;
    let nf = 30usize;
    let mp: Vec<String> = (0..p).map(|k| format!("p{k}")).collect();
    let perm = [3usize, 9, 0, 7, 1, 8, 2, 6, 4, 5];
    let funs: Vec<FunJ> = (0..nf)
        .map(|j| FunJ { ps: (0..10).map(|s| format!("p{}", j + nf * perm[s])).collect(), dord: if j % 2 == 0 { "fwd".into() } else { "rev".into() } })
        .collect();
    let cfg = CfgJ { funs, mp, bad: BadJ { j: 0, which: 0, how: "ok".into() } };
    check_cfg_by_indexing::<T>(&cfg, "300 parameter model", &[0, 29, 30, 127, 128, 255, 256, 257, 270, 299], rep);
    rep.count("large_model_probes", 1);
}

/// several functions with OVERLAPPING parameter sets and different arities (an invariant function in
/// between, one list twice and once permuted), under parameter names whose lexicographic, numeric and declaration orders all differ
fn probe_overlap<T: Sc>(rep: &mut Report) {
    for names in [["a", "b", "c", "d"], ["10", "2", "1", "01"], ["x2", "x", "x10", "X"]] {
        let n = |i: usize| names[i].to_string();
        let f = |ps: Vec<usize>, d: &str| FunJ { ps: ps.into_iter().map(n).collect(), dord: d.into() };
        let funs = vec![
            f(vec![0, 1], "fwd"),
            f(vec![1], "fwd"),
            f(vec![2, 0, 1], "rev"),
            FunJ { ps: vec![], dord: "fwd".into() },
            f(vec![2], "fwd"),
            f(vec![3, 2, 1, 0], "rev"),
            f(vec![1, 3], "fwd"),
            // the same list a second time, and a permutation of it
            f(vec![0, 1], "rev"),
            f(vec![1, 0], "fwd"),
        ];
        let cfg = CfgJ { funs, mp: names.iter().map(|s| s.to_string()).collect(), bad: BadJ { j: 0, which: 0, how: "ok".into() } };
        check_cfg_by_indexing::<T>(&cfg, &format!("seven functions with overlapping parameter sets, names {:?}", names), &[0, 1, 2, 3], rep);
    }
    rep.count("overlap_model_probes", 1);
}

/// C17 beyond two functions: the misbehaving closure (wrong output length) sits in the MIDDLE of three
/// functions.  The call that reaches it returns the error value - never a panic, never a partially
/// filled matrix - the calls that do not reach it succeed, and the parameters stay what they were.
fn probe_middle_bad<T: Sc>(rep: &mut Report) {
    for how in ["short", "long", "empty"] {
        for which in [0usize, 1, 2] {
            let n = |s: &str| s.to_string();
            let funs = vec![
                FunJ { ps: vec![n("a")], dord: "fwd".into() },
                FunJ { ps: vec![n("a"), n("b")], dord: "fwd".into() },
                FunJ { ps: vec![n("b")], dord: "fwd".into() },
            ];
            let cfg = CfgJ { funs, mp: vec![n("a"), n("b")], bad: BadJ { j: 2, which, how: how.into() } };
            let det = |what: &str, got: String| json!({"ctx": "misbehaving closure in the middle of three functions", "cfg": cfg, "scalar": T::NAME, "what": what, "got": got});
            let Ok(Ok(m)) = catch_unwind(AssertUnwindSafe(|| build_model::<T>(&cfg))) else {
                rep.violation("C16", det("a valid model failed to build", String::new()));
                continue;
            };
            let before = m.params();
            // which = 0: the function itself misbehaves; which = i: its derivative w.r.t. its i-th parameter
            let r = catch_unwind(AssertUnwindSafe(|| m.eval().map(|p| (p.nrows(), p.ncols())).map_err(|e| err_kind(&e))));
            let want_err = which == 0;
            let ok = match &r {
                Ok(Err(k)) => want_err && *k == "UnexpectedFunctionOutput",
                Ok(Ok((rows, cols))) => !want_err && *rows == NX && *cols == 3,
                Err(_) => false,
            };
            rep.check("C17", ok, 0.0, || det("eval(): error value expected exactly when the middle function misbehaves; never a panic", format!("{r:?}")));
            for k in 0..2usize {
                let r = catch_unwind(AssertUnwindSafe(|| m.eval_partial_deriv(k).map(|p| (p.nrows(), p.ncols())).map_err(|e| err_kind(&e))));
                let want_err = which == k + 1;
                let ok = match &r {
                    Ok(Err(kind)) => want_err && *kind == "UnexpectedFunctionOutput",
                    Ok(Ok((rows, cols))) => !want_err && *rows == NX && *cols == 3,
                    Err(_) => false,
                };
                rep.check("C17", ok, 0.0, || det(&format!("eval_partial_deriv({k}): error value expected exactly when the middle function's derivative misbehaves; never a panic"), format!("{r:?}")));
            }
            rep.check("C17", bits_eq(m.params().as_slice(), before.as_slice()), 0.0, || det("parameters changed by failing evaluations", String::new()));
        }
    }
    rep.count("middle_bad_probes", 1);
}

/// C17: several closures misbehave at once and their length errors cancel (one too long, one too short):
/// still an error value, for the functions and for the derivatives.
fn probe_cancelling_lengths<T: Sc>(rep: &mut Report) {
    for (d0, d1) in [(1isize, -1isize), (-2, 2), (3, -3), (-(NX as isize), NX as isize)] {
        let len = move |x: &DVector<T>, d: isize| (x.len() as isize + d) as usize;
        let x = DVector::from_fn(NX, |i, _| T::of64(i as f64));
        let built = SeparableModelBuilder::<T>::new(&["a", "b"])
            .function(&["a"], move |x: &DVector<T>, a: T| DVector::from_element(len(x, d0), a))
            .partial_deriv("a", move |x: &DVector<T>, a: T| DVector::from_element(len(x, d1), a))
            .function(&["b"], move |x: &DVector<T>, b: T| DVector::from_element(len(x, d1), b))
            .partial_deriv("b", move |x: &DVector<T>, b: T| DVector::from_element(len(x, d0), b))
            .function(&["a", "b"], |x: &DVector<T>, a: T, b: T| x.map(|v| v * a + b))
            .partial_deriv("a", move |x: &DVector<T>, _a: T, _b: T| DVector::from_element(len(x, d0), T::one()))
            .partial_deriv("b", |x: &DVector<T>, _a: T, _b: T| x.map(|_| T::one()))
            .independent_variable(x)
            .initial_parameters(vec![T::one(), T::of64(2.0)])
            .build();
        let Ok(m) = built else {
            rep.tool_error("cancelling lengths probe: cannot build".into());
            return;
        };
        let det = |what: &str, got: String| json!({"ctx": "two closures return vectors whose length errors cancel", "scalar": T::NAME, "d0": d0, "d1": d1, "what": what, "got": got});
        let r = catch_unwind(AssertUnwindSafe(|| m.eval().map(|p| (p.nrows(), p.ncols())).map_err(|e| err_kind(&e))));
        rep.check("C17", matches!(&r, Ok(Err(k)) if *k == "UnexpectedFunctionOutput"), 0.0, || det("eval(): an error value is due (two functions return vectors of the wrong length)", format!("{r:?}")));
        for k in 0..2usize {
            let r = catch_unwind(AssertUnwindSafe(|| m.eval_partial_deriv(k).map(|p| (p.nrows(), p.ncols())).map_err(|e| err_kind(&e))));
            // d/da: functions 0 (d1) and 2 (d0) misbehave; d/db: function 1 (d0) misbehaves
            rep.check("C17", matches!(&r, Ok(Err(kind)) if *kind == "UnexpectedFunctionOutput"), 0.0, || det(&format!("eval_partial_deriv({k}): an error value is due"), format!("{r:?}")));
        }
    }
    rep.count("cancelling_length_probes", 1);
}

/// C15 / C17: an independent variable without any sample is a given independent variable (a window
/// that selects nothing); the model then has zero rows, and every guard works as for any other N.
fn probe_empty_x<T: Sc>(rep: &mut Report) {
    for bad_len in [0usize, 3] {
        let x = DVector::<T>::from_vec(vec![]);
        let built = catch_unwind(AssertUnwindSafe(|| {
            SeparableModelBuilder::<T>::new(&["a", "b"])
                .function(&["a"], move |x: &DVector<T>, a: T| DVector::from_element(x.len() + bad_len, a))
                .partial_deriv("a", |x: &DVector<T>, a: T| x.map(|v| v * a))
                .function(&["b", "a"], |x: &DVector<T>, b: T, a: T| x.map(|v| v * b + a))
                .partial_deriv("b", move |x: &DVector<T>, _b: T, _a: T| DVector::from_element(x.len() + bad_len, T::one()))
                .partial_deriv("a", |x: &DVector<T>, _b: T, _a: T| x.map(|_| T::one()))
                .independent_variable(x)
                .initial_parameters(vec![T::one(), T::of64(2.0)])
                .build()
        }));
        let det = |what: &str, got: String| json!({"ctx": "independent variable of length zero", "scalar": T::NAME, "extra_length_of_first_function": bad_len, "what": what, "got": got});
        let mut m = match built {
            Ok(Ok(m)) => {
                rep.ok("C15", 0.0);
                m
            }
            Ok(Err(e)) => {
                rep.violation("C15", det("a complete, valid specification (the independent variable is given, with no samples) is rejected", format!("{e:?}")));
                continue;
            }
            Err(_) => {
                rep.violation("C15", det("build() panicked", String::new()));
                continue;
            }
        };
        let want_err = bad_len != 0;
        let r = catch_unwind(AssertUnwindSafe(|| m.eval().map(|p| (p.nrows(), p.ncols())).map_err(|e| err_kind(&e))));
        let ok = match &r {
            Ok(Ok((0, 2))) => !want_err,
            Ok(Err(k)) => want_err && *k == "UnexpectedFunctionOutput",
            _ => false,
        };
        rep.check("C17", ok, 0.0, || det("eval(): 0 x M matrix when every function returns one value per sample, an error value otherwise", format!("{r:?}")));
        // d/da: both functions depend on a (fine); d/db: the derivative of the second function misbehaves when bad_len > 0
        for (k, bad) in [(0usize, false), (1, want_err)] {
            let r = catch_unwind(AssertUnwindSafe(|| m.eval_partial_deriv(k).map(|p| (p.nrows(), p.ncols())).map_err(|e| err_kind(&e))));
            let ok = match &r {
                Ok(Ok((0, 2))) => !bad,
                Ok(Err(kind)) => bad && *kind == "UnexpectedFunctionOutput",
                _ => false,
            };
            rep.check("C17", ok, 0.0, || det(&format!("eval_partial_deriv({k})"), format!("{r:?}")));
        }
        for k in [2usize, 3, usize::MAX] {
            let r = catch_unwind(AssertUnwindSafe(|| m.eval_partial_deriv(k).map(|p| (p.nrows(), p.ncols())).map_err(|e| err_kind(&e))));
            rep.check("C17", matches!(&r, Ok(Err(kind)) if *kind == "DerivativeIndexOutOfBounds"), 0.0, || det(&format!("eval_partial_deriv({k}): index out of range"), format!("{r:?}")));
        }
        let before = m.params();
        let r = catch_unwind(AssertUnwindSafe(|| m.set_params(DVector::from_vec(vec![T::one()])).map_err(|e| err_kind(&e))));
        rep.check("C17", matches!(&r, Ok(Err(kind)) if *kind == "IncorrectParameterCount") && bits_eq(m.params().as_slice(), before.as_slice()), 0.0, || det("set_params with one value for two parameters", format!("{r:?}")));
    }
    rep.count("empty_x_probes", 1);
}

/// C17: a closure whose output has the wrong length only for SOME parameter values.  After any number
/// of good evaluations the bad one is still reported as an error value, and the model recovers.
fn probe_data_dependent_length<T: Sc>(rep: &mut Report) {
    let x = DVector::from_fn(NX, |i, _| T::of64(i as f64));
    let built = SeparableModelBuilder::<T>::new(&["a", "b"])
        .function(&["a"], |x: &DVector<T>, a: T| if a.to64() > 100.0 { DVector::from_element(x.len() + 2, a) } else { x.map(|v| v + a) })
        .partial_deriv("a", |x: &DVector<T>, a: T| if a.to64() < -100.0 { DVector::from_element(1, a) } else { x.map(|_| T::one()) })
        .invariant_function(|x: &DVector<T>| x.clone())
        .function(&["b", "a"], |x: &DVector<T>, b: T, _a: T| x.map(|v| v * b))
        .partial_deriv("b", |x: &DVector<T>, _b: T, _a: T| x.clone())
        .partial_deriv("a", |x: &DVector<T>, _b: T, _a: T| x.map(|_| T::zero()))
        .independent_variable(x)
        .initial_parameters(vec![T::one(), T::of64(2.0)])
        .build();
    let Ok(mut m) = built else {
        rep.tool_error("data dependent length probe: cannot build".into());
        return;
    };
    let det = |what: &str, got: String| json!({"ctx": "output length wrong only for some parameter values", "scalar": T::NAME, "what": what, "got": got});
    let steps: [(f64, bool, bool); 7] = [(1.0, true, true), (3.0, true, true), (200.0, false, true), (5.0, true, true), (-200.0, true, false), (200.0, false, true), (7.0, true, true)];
    for (round, (a, eval_ok, deriv_ok)) in steps.iter().enumerate() {
        let set = catch_unwind(AssertUnwindSafe(|| m.set_params(DVector::from_vec(vec![T::of64(*a), T::of64(2.0)]))));
        rep.check("C17", matches!(set, Ok(Ok(()))), 0.0, || det("set_params with a vector of the right length failed", format!("step {round}")));
        // several evaluations in a row: the verdict does not depend on how often it was good before
        for rep_i in 0..3 {
            let r = catch_unwind(AssertUnwindSafe(|| m.eval().map(|p| (p.nrows(), p.ncols())).map_err(|e| err_kind(&e))));
            let ok = match &r {
                Ok(Ok((rows, cols))) => *eval_ok && *rows == NX && *cols == 3,
                Ok(Err(k)) => !*eval_ok && *k == "UnexpectedFunctionOutput",
                Err(_) => false,
            };
            rep.check("C17", ok, 0.0, || det("eval(): error value exactly when the output length is wrong, never a panic", format!("step {round} a={a} repeat {rep_i}: {r:?}")));
            let r = catch_unwind(AssertUnwindSafe(|| m.eval_partial_deriv(0).map(|p| (p.nrows(), p.ncols())).map_err(|e| err_kind(&e))));
            let ok = match &r {
                Ok(Ok((rows, cols))) => *deriv_ok && *rows == NX && *cols == 3,
                Ok(Err(k)) => !*deriv_ok && *k == "UnexpectedFunctionOutput",
                Err(_) => false,
            };
            rep.check("C17", ok, 0.0, || det("eval_partial_deriv(0): error value exactly when the output length is wrong, never a panic", format!("step {round} a={a} repeat {rep_i}: {r:?}")));
        }
    }
    rep.count("data_dependent_length_probes", 1);
}

pub fn run(path: &str) -> Report {
    let lines = crate::export::read_tagged(path, "VPME");
    let mut groups: BTreeMap<String, Vec<EdgeJ>> = BTreeMap::new();
    let mut bad = Report::new();
    for (idx, raw) in lines.iter().enumerate() {
        match serde_json::from_str::<EdgeJ>(raw) {
            Ok(e) => groups.entry(serde_json::to_string(&json!({"f": e.cfg.funs.iter().map(|f| (&f.ps, &f.dord)).collect::<Vec<_>>(), "m": e.cfg.mp, "b": (e.cfg.bad.j, e.cfg.bad.which, &e.cfg.bad.how)})).unwrap()).or_default().push(e),
            Err(e) => bad.tool_error(format!("malformed VPME line {idx}: {e}")),
        }
    }
    let gs: Vec<(&String, &Vec<EdgeJ>)> = groups.iter().collect();
    let reports: Vec<Report> = gs
        .par_iter()
        .enumerate()
        .map(|(gi, (_k, edges))| {
            let mut rep = Report::new();
            let cfg = &edges[0].cfg;
            let deep = cfg.bad.j != 0 || cfg.mp.len() <= 2;
            run_cfg::<f64>(cfg, edges, deep, &mut rep);
            if gi % 2 == 0 {
                run_cfg::<f32>(cfg, edges, false, &mut rep);
            }
            probe_bits::<f64>(cfg, &mut rep);
            probe_bits::<f32>(cfg, &mut rep);
            rep.count("configurations", 1);
            rep.count("edges", edges.len() as u64);
            if cfg.bad.j != 0 {
                rep.count("configurations_with_misbehaving_closure", 1);
            }
            rep.count(&format!("P_{}", cfg.mp.len()), 1);
            if gi % 1543 == 0 {
                rep.sample(json!({"cfg": cfg, "edges": edges.len(), "example_edge": {"from": edges[edges.len() / 2].from, "op": edges[edges.len() / 2].op, "arg": edges[edges.len() / 2].arg, "cols": edges[edges.len() / 2].res.cols}}));
            }
            rep
        })
        .collect();
    let mut total = bad;
    for r in reports {
        total.merge(r);
    }
    probe_large::<f64>(&mut total);
    probe_large::<f32>(&mut total);
    probe_overlap::<f64>(&mut total);
    probe_overlap::<f32>(&mut total);
    probe_middle_bad::<f64>(&mut total);
    probe_middle_bad::<f32>(&mut total);
    probe_empty_x::<f64>(&mut total);
    probe_empty_x::<f32>(&mut total);
    probe_cancelling_lengths::<f64>(&mut total);
    probe_cancelling_lengths::<f32>(&mut total);
    probe_data_dependent_length::<f64>(&mut total);
    probe_data_dependent_length::<f32>(&mut total);
    total.count("sequences", groups.len() as u64);
    total
}
