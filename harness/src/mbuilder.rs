//! C15: replay of every call sequence enumerated by spec/VPModelBuilder.tla into the real
//! SeparableModelBuilder; verdicts are compared at the property layer (Valid / Defects), the
//! implementation layer verdict is only used to report drift.
use crate::report::Report;
use crate::sc::Sc;
use nalgebra::DVector;
use rayon::prelude::*;
use serde::Deserialize;
use serde_json::json;
use std::panic::{catch_unwind, AssertUnwindSafe};
use varpro::model::builder::error::ModelBuildError;
use varpro::prelude::*;

#[derive(Deserialize, Debug, Clone)]
pub struct MbLine {
    /// calls: [op, names, n]
    pub c: Vec<(String, Vec<String>, i64)>,
    pub v: bool,
    pub d: Vec<String>,
    pub i: String,
}

pub fn kind_of(e: &ModelBuildError) -> &'static str {
    match e {
        ModelBuildError::DuplicateParameterNames { .. } => "DuplicateParameterNames",
        ModelBuildError::EmptyParameters => "EmptyParameters",
        ModelBuildError::FunctionParameterNotInModel { .. } => "FunctionParameterNotInModel",
        ModelBuildError::InvalidDerivative { .. } => "InvalidDerivative",
        ModelBuildError::DuplicateDerivative { .. } => "DuplicateDerivative",
        ModelBuildError::MissingDerivative { .. } => "MissingDerivative",
        ModelBuildError::EmptyModel => "EmptyModel",
        ModelBuildError::UnusedParameter { .. } => "UnusedParameter",
        ModelBuildError::IncorrectParameterCount { .. } => "IncorrectParameterCount",
        ModelBuildError::CommaInParameterNameNotAllowed { .. } => "CommaInParameterNameNotAllowed",
        ModelBuildError::MissingX => "MissingX",
        ModelBuildError::MissingInitialParameters => "MissingInitialParameters",
        ModelBuildError::IllegalCallToPartialDeriv => "IllegalCallToPartialDeriv",
    }
}

macro_rules! with_arity {
    ($n:expr, $mac:ident) => {
        match $n {
            1 => $mac!(a1),
            2 => $mac!(a1, a2),
            3 => $mac!(a1, a2, a3),
            4 => $mac!(a1, a2, a3, a4),
            5 => $mac!(a1, a2, a3, a4, a5),
            6 => $mac!(a1, a2, a3, a4, a5, a6),
            7 => $mac!(a1, a2, a3, a4, a5, a6, a7),
            8 => $mac!(a1, a2, a3, a4, a5, a6, a7, a8),
            9 => $mac!(a1, a2, a3, a4, a5, a6, a7, a8, a9),
            10 => $mac!(a1, a2, a3, a4, a5, a6, a7, a8, a9, a10),
            other => panic!("unsupported arity {other}"),
        }
    };
}

/// run the call sequence through the real builder; Ok(()) or the error kind
pub fn replay<T: Sc>(calls: &[(String, Vec<String>, i64)]) -> Result<Vec<String>, &'static str> {
    let mut b: Option<SeparableModelBuilder<T>> = None;
    let mut p_calls = 0usize;
    let mut last_p: Vec<T> = Vec::new();
    for (op, names, n) in calls {
        let cur = b.take();
        b = Some(match op.as_str() {
            "N" => SeparableModelBuilder::<T>::new(names.clone()),
            "F" => {
                let cur = cur.expect("call before new");
                macro_rules! f {
                    ($($a:ident),+) => { cur.function(names.clone(), |x: &DVector<T>, $($a: T),+| { $(let _ = $a;)+ x.clone() }) };
                }
                with_arity!(*n, f)
            }
            "D" => {
                let cur = cur.expect("call before new");
                macro_rules! d {
                    ($($a:ident),+) => { cur.partial_deriv(names[0].clone(), |x: &DVector<T>, $($a: T),+| { $(let _ = $a;)+ x.clone() }) };
                }
                with_arity!(*n, d)
            }
            "I" => cur.expect("call before new").invariant_function(|x: &DVector<T>| x.clone()),
            "X" => cur
                .expect("call before new")
                .independent_variable(DVector::from_element(3, T::one())),
            // an independent variable without samples is a given independent variable
            "X0" => cur.expect("call before new").independent_variable(DVector::from_vec(vec![])),
            "P" => {
                // every call gives its own values: the LAST call is the one that counts
                p_calls += 1;
                last_p = vec![T::of64(p_calls as f64); *n as usize];
                cur.expect("call before new").initial_parameters(last_p.clone())
            }
            other => panic!("unknown builder op {other}"),
        });
    }
    match b.expect("empty sequence").build() {
        Ok(model) => {
            // C17: whatever the builder hands out is a model that never panics: exercise it
            use varpro::model::SeparableNonlinearModel;
            let mut panics = Vec::new();
            match catch_unwind(AssertUnwindSafe(|| model.params())) {
                Err(_) => panics.push("params()".to_string()),
                Ok(p) => {
                    if !crate::sc::bits_eq(p.as_slice(), &last_p) {
                        panics.push("PARAMS: the built model does not start at the parameters of the last initial_parameters call".to_string());
                    }
                }
            }
            if catch_unwind(AssertUnwindSafe(|| model.eval().map(|_| ()))).is_err() {
                panics.push("eval()".to_string());
            }
            let p = catch_unwind(AssertUnwindSafe(|| model.parameter_count())).unwrap_or(0);
            for k in 0..=p {
                if catch_unwind(AssertUnwindSafe(|| model.eval_partial_deriv(k).map(|_| ()))).is_err() {
                    panics.push(format!("eval_partial_deriv({k})"));
                }
            }
            Ok(panics)
        }
        Err(e) => Err(kind_of(&e)),
    }
}

/// The verdict on a call sequence depends on which names are EQUAL (and on commas), not on what they
/// are: the same sequence with the names replaced by others that are substrings of one another, differ
/// in case only, or are not ASCII must get the same verdict.
fn renamed(calls: &[(String, Vec<String>, i64)], variant: usize) -> Vec<(String, Vec<String>, i64)> {
    let map = |n: &String| -> String {
        let t: [&str; 3] = match variant {
            0 => ["t", "tau", "au"],
            1 => ["Tau", "tau", "TAU"],
            _ => ["\u{3c4}", "\u{3c4}\u{2081}", " \u{3c4}"],
        };
        match n.as_str() {
            "a" => t[0].to_string(),
            "b" => t[1].to_string(),
            "z" => t[2].to_string(),
            "a,b" => format!("{},{}", t[0], t[1]),
            other => other.to_string(),
        }
    };
    calls.iter().map(|(op, names, n)| (op.clone(), names.iter().map(map).collect(), *n)).collect()
}

fn judge<T: Sc>(idx: usize, l: &MbLine, rep: &mut Report) {
    judge_calls::<T>(idx, l, &l.c, "", rep);
    // renamed twins on a third of the sequences (each variant on a ninth)
    if idx % 3 == 0 {
        let v = (idx / 3) % 3;
        let rc = renamed(&l.c, v);
        judge_calls::<T>(idx, l, &rc, ["names t/tau/au", "names Tau/tau/TAU", "non-ASCII names"][v], rep);
    }
}

fn judge_calls<T: Sc>(idx: usize, l: &MbLine, calls: &[(String, Vec<String>, i64)], twin: &str, rep: &mut Report) {
    let r = catch_unwind(AssertUnwindSafe(|| replay::<T>(calls)));
    let det = |what: &str, got: &str| json!({"line": idx, "scalar": T::NAME, "calls": calls, "renamed": twin, "what": what, "got": got, "valid": l.v, "defects": l.d});
    match r {
        Err(_) => rep.violation("C15", det("builder panicked", "panic")),
        Ok(Ok(panics)) => {
            rep.check("C15", l.v, 0.0, || det("build() returned a model for an invalid specification", "Ok"));
            let (wrong_start, panics): (Vec<String>, Vec<String>) = panics.into_iter().partition(|p| p.starts_with("PARAMS:"));
            rep.check("C16", wrong_start.is_empty(), 0.0, || det("parameters given to the builder are not what the model reports", &wrong_start.join(", ")));
            rep.check("C17", panics.is_empty(), 0.0, || det("a model handed out by the builder panicked", &panics.join(", ")));
            if l.i != "ok" {
                rep.count("spec_drift", 1);
            }
        }
        Ok(Err(k)) => {
            if l.v {
                rep.violation("C15", det("build() failed for a valid specification", k));
            } else if !l.d.iter().any(|d| d == k) {
                rep.violation("C15", det("error kind names a defect that is not present in the call sequence", k));
            } else {
                rep.ok("C15", 0.0);
            }
            if l.i != k {
                rep.count("spec_drift", 1);
                if rep.notes.len() < 5 {
                    rep.notes.push(format!("SPEC-DRIFT: impl layer expected {} got {} for {:?}", l.i, k, l.c));
                }
            }
        }
    }
}

/// Call sequences outside the universe TLC enumerates (three and ten model parameters, non-adjacent
/// duplicates, arity mismatches beyond 2, six functions), each with exactly one defect - or none - so
/// that the verdict follows from the rules of VPModelBuilder without enumeration.
fn beyond_universe<T: Sc>(rep: &mut Report) {
    let s = |v: &[&str]| v.iter().map(|x| x.to_string()).collect::<Vec<String>>();
    let c = |op: &str, names: &[&str], n: i64| (op.to_string(), s(names), n);
    let ten = ["p0", "p1", "p2", "p3", "p4", "p5", "p6", "p7", "p8", "p9"];
    let rot: Vec<&str> = (0..10).map(|i| ten[(i * 3 + 4) % 10]).collect();
    let mut ten_valid = vec![c("N", &ten, 0), c("F", &rot, 10)];
    for n in rot.iter() {
        ten_valid.push(c("D", &[n], 10));
    }
    ten_valid.push(c("X", &[], 0));
    ten_valid.push(c("P", &[], 10));
    let mut ten_bad_arity = vec![c("N", &ten, 0), c("F", &rot, 9), c("X", &[], 0), c("P", &[], 10)];
    ten_bad_arity.insert(2, c("I", &[], 0));
    let cases: Vec<(&str, Vec<(String, Vec<String>, i64)>, Option<&str>)> = vec![
        ("model list with a non-adjacent duplicate", vec![c("N", &["a", "b", "a"], 0), c("F", &["a"], 1), c("D", &["a"], 1), c("F", &["b"], 1), c("D", &["b"], 1), c("X", &[], 0), c("P", &[], 3)], Some("DuplicateParameterNames")),
        ("function list with a non-adjacent duplicate", vec![c("N", &["a", "b", "c"], 0), c("F", &["c"], 1), c("D", &["c"], 1), c("F", &["a", "b", "a"], 3), c("X", &[], 0), c("P", &[], 3)], Some("DuplicateParameterNames")),
        ("closure of arity 2 for three names", vec![c("N", &["a", "b", "c"], 0), c("F", &["a", "b", "c"], 2), c("X", &[], 0), c("P", &[], 3)], Some("IncorrectParameterCount")),
        ("valid three parameter model", vec![c("N", &["a", "b", "c"], 0), c("F", &["c", "a"], 2), c("D", &["c"], 2), c("D", &["a"], 2), c("F", &["b"], 1), c("D", &["b"], 1), c("I", &[], 0), c("X", &[], 0), c("P", &[], 3)], None),
        ("third parameter unused", vec![c("N", &["a", "b", "c"], 0), c("F", &["a", "b"], 2), c("D", &["a"], 2), c("D", &["b"], 2), c("X", &[], 0), c("P", &[], 3)], Some("UnusedParameter")),
        ("middle derivative missing", vec![c("N", &["a", "b", "c"], 0), c("F", &["a", "b", "c"], 3), c("D", &["a"], 3), c("D", &["c"], 3), c("X", &[], 0), c("P", &[], 3)], Some("MissingDerivative")),
        ("derivative given twice (not adjacent)", vec![c("N", &["a", "b", "c"], 0), c("F", &["a", "b", "c"], 3), c("D", &["a"], 3), c("D", &["b"], 3), c("D", &["a"], 3), c("D", &["c"], 3), c("X", &[], 0), c("P", &[], 3)], Some("DuplicateDerivative")),
        ("six functions", vec![c("N", &["a", "b"], 0), c("F", &["a"], 1), c("D", &["a"], 1), c("I", &[], 0), c("F", &["b", "a"], 2), c("D", &["a"], 2), c("D", &["b"], 2), c("F", &["b"], 1), c("D", &["b"], 1), c("I", &[], 0), c("F", &["a", "b"], 2), c("D", &["b"], 2), c("D", &["a"], 2), c("X", &[], 0), c("P", &[], 2)], None),
        ("ten parameters in rotated order", ten_valid, None),
        ("closure of arity 9 for ten names", ten_bad_arity, Some("IncorrectParameterCount")),
    ];
    // seventy parameters (beyond any machine word used as a bit set): all used / p64 unused / p69 unused
    let names70: Vec<String> = (0..70).map(|k| format!("q{k}")).collect();
    let refs70: Vec<&str> = names70.iter().map(|x| x.as_str()).collect();
    let seventy = |skip: Option<usize>| -> Vec<(String, Vec<String>, i64)> {
        let mut v = vec![c("N", &refs70, 0)];
        let used: Vec<&str> = (0..70).filter(|k| Some(*k) != skip).map(|k| refs70[k]).collect();
        for chunk in used.chunks(10) {
            v.push(c("F", chunk, chunk.len() as i64));
            for n in chunk {
                v.push(c("D", &[n], chunk.len() as i64));
            }
        }
        v.push(c("X", &[], 0));
        v.push(c("P", &[], 70));
        v
    };
    let mut cases = cases;
    for bad in ["a,", ",a", ",", ",,", "a, "] {
        cases.push(("comma at the edge of a model parameter name", vec![c("N", &[bad], 0), c("F", &[bad], 1), c("D", &[bad], 1), c("X", &[], 0), c("P", &[], 1)], Some("CommaInParameterNameNotAllowed")));
    }
    cases.push(("initial parameters given twice (the second call counts)", vec![c("N", &["a", "b"], 0), c("P", &[], 2), c("F", &["b", "a"], 2), c("D", &["a"], 2), c("D", &["b"], 2), c("P", &[], 2), c("X", &[], 0)], None));
    cases.push(("initial parameters given three times", vec![c("N", &["a"], 0), c("P", &[], 1), c("P", &[], 1), c("F", &["a"], 1), c("D", &["a"], 1), c("X", &[], 0), c("P", &[], 1)], None));
    cases.push(("independent variable without samples", vec![c("N", &["a", "b"], 0), c("F", &["b", "a"], 2), c("D", &["a"], 2), c("D", &["b"], 2), c("X0", &[], 0), c("P", &[], 2)], None));
    cases.push(("independent variable without samples after one with samples", vec![c("N", &["a"], 0), c("X", &[], 0), c("F", &["a"], 1), c("D", &["a"], 1), c("X0", &[], 0), c("P", &[], 1)], None));
    cases.push(("independent variable without samples, no initial parameters", vec![c("N", &["a"], 0), c("F", &["a"], 1), c("D", &["a"], 1), c("X0", &[], 0)], Some("MissingInitialParameters")));
    cases.push(("seventy parameters, all used", seventy(None), None));
    cases.push(("seventy parameters, q64 unused", seventy(Some(64)), Some("UnusedParameter")));
    cases.push(("seventy parameters, q69 unused", seventy(Some(69)), Some("UnusedParameter")));
    cases.push(("seventy parameters, q5 unused", seventy(Some(5)), Some("UnusedParameter")));
    for (what, calls, expect) in cases {
        let r = catch_unwind(AssertUnwindSafe(|| replay::<T>(&calls)));
        let det = |got: String| json!({"ctx": "call sequence beyond the enumerated universe", "case": what, "scalar": T::NAME, "calls": calls, "expected": expect, "got": got});
        match (r, expect) {
            (Err(_), _) => rep.violation("C15", det("panic".into())),
            (Ok(Ok(panics)), None) => {
                rep.ok("C15", 0.0);
                let (wrong_start, panics): (Vec<String>, Vec<String>) = panics.into_iter().partition(|p| p.starts_with("PARAMS:"));
                rep.check("C16", wrong_start.is_empty(), 0.0, || det(wrong_start.join(", ")));
                rep.check("C17", panics.is_empty(), 0.0, || det(format!("built model panicked in {}", panics.join(", "))));
            }
            (Ok(Ok(_)), Some(_)) => rep.violation("C15", det("Ok".into())),
            (Ok(Err(k)), Some(e)) => rep.check("C15", k == e, 0.0, || det(k.to_string())),
            (Ok(Err(k)), None) => rep.violation("C15", det(k.to_string())),
        }
    }
    rep.count("sequences_beyond_universe", 21);
}

pub fn run(path: &str) -> Report {
    let lines = crate::export::read_tagged(path, "VPMB");
    let reports: Vec<Report> = lines
        .par_chunks(4096)
        .enumerate()
        .map(|(ci, chunk)| {
            let mut rep = Report::new();
            for (k, raw) in chunk.iter().enumerate() {
                let idx = ci * 4096 + k;
                let l: MbLine = match serde_json::from_str(raw) {
                    Ok(l) => l,
                    Err(e) => {
                        rep.tool_error(format!("malformed VPMB line {idx}: {e}"));
                        continue;
                    }
                };
                judge::<f64>(idx, &l, &mut rep);
                if idx % 8 == 0 {
                    judge::<f32>(idx, &l, &mut rep);
                }
                rep.count("sequences", 1);
                if l.v {
                    rep.count("valid_sequences", 1);
                    if idx % 3 == 0 {
                        rep.sample(json!({"calls": l.c, "valid": true}));
                    }
                } else if idx % 50021 == 0 {
                    rep.sample(json!({"calls": l.c, "valid": false, "defects": l.d, "impl": l.i}));
                }
                rep.count(&format!("len_{}", l.c.len()), 1);
                rep.count(&format!("ndefects_{}", l.d.len()), 1);
            }
            rep
        })
        .collect();
    let mut total = Report::new();
    for r in reports {
        total.merge(r);
    }
    beyond_universe::<f64>(&mut total);
    beyond_universe::<f32>(&mut total);
    total
}
