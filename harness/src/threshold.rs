//! C01 / C18: the singular value threshold (machine epsilon of the scalar type by default, |eps|
//! when given) on matrices with exactly known singular values, enumerated by spec/VPThreshold.tla.
use crate::models::*;
use crate::prob::*;
use crate::report::Report;
use crate::sc::*;
use nalgebra::DMatrix;
use rayon::prelude::*;
use serde::Deserialize;
use serde_json::json;
use std::sync::Arc;

#[derive(Deserialize, Debug, Clone)]
pub struct ThrJ {
    pub kind: String,
    pub u: i32,
    pub neg: bool,
}
#[derive(Deserialize, Debug, Clone)]
pub struct ThLine {
    pub scalar: String,
    #[serde(rename = "M")]
    pub m: usize,
    #[serde(rename = "N")]
    pub n: usize,
    pub ks: Vec<i32>,
    pub thr: ThrJ,
    #[serde(rename = "Y")]
    pub y: Vec<Vec<i64>>,
    pub trunc: Vec<bool>,
    pub cn: Vec<Vec<i64>>,
    pub cd: Vec<i64>,
}

/// 2^e exactly, down to the smallest subnormal number (`powi` with a negative exponent computes a
/// reciprocal and loses everything below 2^-1023)
fn pow2(e: i32) -> f64 {
    if e > 1023 {
        f64::INFINITY
    } else if e >= -1022 {
        f64::from_bits(((e + 1023) as u64) << 52)
    } else if e >= -1074 {
        f64::from_bits(1u64 << (e + 1074))
    } else {
        0.0
    }
}

fn judge<T: Sc>(idx: usize, l: &ThLine, rep: &mut Report) {
    let (n, m) = (l.n, l.m);
    let s = l.y[0].len();
    // rows whose weight 2^-k is a subnormal number carry model values and observations larger by 2^(k-10)
    let comp = |i: usize| -> f64 { if i < m && l.ks[i] > 60 { pow2(l.ks[i] - 10) } else { 1.0 } };
    let phi = DMatrix::from_fn(n, m, |i, j| if i == j { T::of64((j + 1) as f64 * comp(i)) } else { T::zero() });
    let table = Arc::new(Table {
        n,
        m,
        p: 1,
        entries: vec![TableEntry {
            a: vec![0],
            phi,
            dphi: vec![DMatrix::from_element(n, m, T::zero())],
        }],
    });
    let w: Vec<T> = (0..n).map(|i| if i < m { T::of64(pow2(-l.ks[i])) } else { T::one() }).collect();
    let y = DMatrix::from_fn(n, s, |i, c| T::of64(l.y[i][c] as f64 * comp(i)));
    let eps: Option<T> = if l.thr.kind == "default" {
        None
    } else if l.thr.kind == "zero" {
        Some(T::of64(if l.thr.neg { -0.0 } else { 0.0 }))
    } else {
        // (2^-1050 is a subnormal f64 and becomes 0 in f32, 2^-140 is a subnormal f32)
        Some(T::of64(pow2(-l.thr.u) * if l.thr.neg { -1.0 } else { 1.0 }))
    };
    // C11: the parallel flavour applies the same threshold as the sequential one
    {
        let mk = |par: bool| build_problem(TableModel::new(table.clone(), &[0]), true, par, &y, Some(&w), eps).ok().and_then(|p| p.coeffs());
        if let (Some(cs), Some(cp)) = (mk(false), mk(true)) {
            let scale = cs.iter().fold(1.0f64, |m, v| m.max(v.to64().abs()));
            let d = cs.iter().zip(cp.iter()).fold(0.0f64, |m, (a, b)| {
                let x = (a.to64() - b.to64()).abs() / scale;
                m.max(if x.is_finite() { x } else { f64::INFINITY })
            });
            rep.check("C11", d <= T::tol(), d, || {
                json!({"flavour": format!("line={} {} ks={:?} thr={}{}", idx, T::NAME, l.ks, l.thr.kind, l.thr.u), "dev": d,
                       "what": "parallel problem applies a different singular value threshold than the sequential problem"})
            });
        }
    }
    // C06: the weighted problem is the unweighted problem on row-scaled model and data - under the
    // DEFAULT threshold too (the threshold is absolute: it does not know about the weights)
    {
        let phi_w = DMatrix::from_fn(n, m, |i, j| if i == j { w[i] * T::of64((j + 1) as f64 * comp(i)) } else { T::zero() });
        let twin_table = Arc::new(Table { n, m, p: 1, entries: vec![TableEntry { a: vec![0], phi: phi_w, dphi: vec![DMatrix::from_element(n, m, T::zero())] }] });
        let y_w = DMatrix::from_fn(n, s, |i, c| w[i] * y[(i, c)]);
        for par in [false, true] {
            let cw = build_problem(TableModel::new(table.clone(), &[0]), true, par, &y, Some(&w), eps).ok().and_then(|p| p.coeffs());
            let ct = build_problem(TableModel::new(twin_table.clone(), &[0]), true, par, &y_w, None, eps).ok().and_then(|p| p.coeffs());
            match (cw, ct) {
                (Some(cw), Some(ct)) => {
                    let scale = cw.iter().chain(ct.iter()).fold(1.0f64, |mx, v| mx.max(v.to64().abs()));
                    let d = cw.iter().zip(ct.iter()).fold(0.0f64, |mx, (a, b)| {
                        let x = (a.to64() - b.to64()).abs() / scale;
                        mx.max(if x.is_finite() { x } else { f64::INFINITY })
                    });
                    rep.check("C06", d <= T::tol(), d, || {
                        json!({"flavour": format!("line={} {} M={} N={} ks={:?} thr={}{} par={}", idx, T::NAME, m, n, l.ks, l.thr.kind, l.thr.u, par), "dev": d,
                               "what": "weighted problem and its row-scaled unweighted twin truncate differently (same threshold)"})
                    });
                }
                (a, b) => rep.check("C06", a.is_some() == b.is_some(), 0.0, || json!({"flavour": format!("line={} {}", idx, T::NAME), "what": "coefficients present for one of weighted problem / row-scaled twin only"})),
            }
        }
    }
    // C07: column q of the coefficients of the problem with S right hand sides is what the single
    // right hand side problem on column q gives - under the same threshold
    if s >= 2 {
        for par in [false, true] {
            let Some(cm) = build_problem(TableModel::new(table.clone(), &[0]), true, par, &y, Some(&w), eps).ok().and_then(|p| p.coeffs()) else {
                continue;
            };
            for q in 0..s {
                let yq = DMatrix::from_fn(n, 1, |i, _| y[(i, q)]);
                let Some(c1) = build_problem(TableModel::new(table.clone(), &[0]), false, false, &yq, Some(&w), eps).ok().and_then(|p| p.coeffs()) else {
                    continue;
                };
                let scale = c1.iter().chain(cm.column(q).iter()).fold(1.0f64, |m, v| m.max(v.to64().abs()));
                let d = (0..m).fold(0.0f64, |mx, j| {
                    let x = (cm[(j, q)].to64() - c1[(j, 0)].to64()).abs() / scale;
                    mx.max(if x.is_finite() { x } else { f64::INFINITY })
                });
                rep.check("C07", d <= T::tol(), d, || {
                    json!({"flavour": format!("line={} {} M={} N={} S={} ks={:?} thr={}{} par={}", idx, T::NAME, m, n, s, l.ks, l.thr.kind, l.thr.u, par), "column": q, "dev": d,
                           "what": "column of the coefficients differs from the single right hand side problem on that column (same threshold)"})
                });
            }
        }
    }
    for (mrhs, par) in [(s >= 2, false), (true, true)] {
        let flav = format!("line={} {} M={} N={} ks={:?} thr={}{}{} mrhs={} par={}", idx, T::NAME, m, n, l.ks, l.thr.kind, if l.thr.neg { "-" } else { "+" }, l.thr.u, mrhs, par);
        let prob = match build_problem(TableModel::new(table.clone(), &[0]), mrhs, par, &y, Some(&w), eps) {
            Ok(p) => p,
            Err(e) => {
                rep.violation("C18", json!({"flavour": flav, "what": "build failed on consistent inputs", "err": format!("{e:?}")}));
                continue;
            }
        };
        let Some(c) = prob.coeffs() else {
            rep.violation("C01", json!({"flavour": flav, "what": "coefficients absent although the model evaluates"}));
            continue;
        };
        let scale = (0..m).flat_map(|j| (0..s).map(move |q| (j, q))).fold(1.0f64, |mx, (j, q)| mx.max((l.cn[j][q] as f64 / l.cd[j] as f64).abs()));
        let mut worst = 0.0f64;
        for j in 0..m {
            for q in 0..s {
                let e = l.cn[j][q] as f64 / l.cd[j] as f64;
                let g = c[(j, q)].to64();
                let d = if g.is_finite() { (g - e).abs() / scale } else { f64::INFINITY };
                worst = worst.max(d);
            }
        }
        let det = || json!({"flavour": flav, "truncated": l.trunc, "dev": worst,
                             "what": "coefficients disagree with the threshold rule: singular values at or below the threshold (machine epsilon of the scalar type by default, |eps| if given) count as zero"});
        rep.check("C01", worst <= T::tol(), worst, det);
        rep.check("C18", worst <= T::tol(), worst, det);
    }
}

pub fn run(path: &str) -> Report {
    let lines = crate::export::read_tagged(path, "VPTH");
    let reps: Vec<Report> = lines
        .par_iter()
        .enumerate()
        .map(|(idx, raw)| {
            let mut rep = Report::new();
            match serde_json::from_str::<ThLine>(raw) {
                Ok(l) => {
                    if l.scalar == "f32" {
                        judge::<f32>(idx, &l, &mut rep)
                    } else {
                        judge::<f64>(idx, &l, &mut rep)
                    }
                    rep.count("sequences", 1);
                    if l.trunc.iter().any(|t| *t) {
                        rep.count("instances_with_truncation", 1);
                    }
                    if idx % 2999 == 0 {
                        rep.sample(json!({"scalar": l.scalar, "ks": l.ks, "thr": [l.thr.kind, l.thr.u, l.thr.neg], "Y": l.y, "truncated": l.trunc}));
                    }
                }
                Err(e) => rep.tool_error(format!("malformed VPTH line {idx}: {e}")),
            }
            rep
        })
        .collect();
    let mut total = Report::new();
    for r in reps {
        total.merge(r);
    }
    total
}
