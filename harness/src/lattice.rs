//! Replay of the exhaustively enumerated lattice (spec/MC_Lattice.tla) into the real code.
//! Every exported instance carries the exact expected observables at every lattice alpha.
use std::panic::{catch_unwind, AssertUnwindSafe};
use crate::models::*;
use crate::prob::*;
use crate::report::Report;
use crate::sc::*;
use nalgebra::{DMatrix, SVD};
use rayon::prelude::*;
use serde::Deserialize;
use serde_json::json;
use std::sync::Arc;

#[derive(Deserialize, Clone, Debug)]
pub struct FamJ {
    pub name: String,
    #[serde(rename = "M")]
    pub m: usize,
    #[serde(rename = "P")]
    pub p: usize,
    pub seed: i64,
}
#[derive(Deserialize, Clone, Debug)]
pub struct Pt {
    pub a: Vec<i64>,
    pub phi: Vec<Vec<i64>>,
    pub dphi: Vec<Vec<Vec<i64>>>,
    pub lvl: i64,
    pub rank: i64,
    pub d: i64,
    pub cn: Vec<Vec<i64>>,
    pub rn: Vec<i64>,
    pub bn: Vec<Vec<i64>>,
    pub jn: Vec<Vec<i64>>,
}
#[derive(Deserialize, Clone, Debug)]
pub struct Line {
    pub fam: FamJ,
    pub x: Vec<i64>,
    pub w: Vec<i64>,
    #[serde(default)]
    pub wid: i64,
    #[serde(rename = "Y")]
    pub y: Vec<Vec<i64>>,
    #[serde(default)]
    pub ycols: Vec<i64>,
    pub yw: Vec<Vec<i64>>,
    pub pts: Vec<Pt>,
    /// squared threshold class for the truncation scenario (0 = none)
    #[serde(default)]
    pub epsq: i64,
}

#[derive(Clone, Copy, Debug, PartialEq)]
pub enum Kind {
    Table,
    TableBuilt,
    TableBuiltRev,
    Poly,
    PolyBuilt,
    PolyBuiltRev,
}
#[derive(Clone, Copy, Debug, PartialEq)]
pub enum EpsVar {
    Default,
    User,
    NegUser,
    /// sqrt(epsq + 1/2): between two singular values of an orthogonal-column instance
    Between,
    /// a quarter of the smallest singular value over all tabulated parameter vectors of a full rank
    /// instance: a large user threshold that truncates nothing
    Quarter,
}

pub struct Pools {
    pub pools: Vec<(usize, rayon::ThreadPool)>,
}
impl Pools {
    pub fn new() -> Self {
        let sizes = [1usize, 2, 3, 4, 8, 16];
        Self {
            pools: sizes
                .iter()
                .map(|&n| (n, rayon::ThreadPoolBuilder::new().num_threads(n).stack_size(1 << 27).build().unwrap()))
                .collect(),
        }
    }
}

pub struct Opts {
    pub only_f64: bool,
    pub replay_flavour: Option<String>,
}

pub struct Inst<T: Sc> {
    pub line: Line,
    pub idx: usize,
    pub n: usize,
    pub m: usize,
    pub p: usize,
    pub s: usize,
    pub table: Arc<Table<T>>,
    pub y: DMatrix<T>,
    pub w: Option<Vec<T>>,
    pub xs: Vec<T>,
    pub healthy: Vec<bool>,
    pub poly: bool,
    /// a quarter of the smallest singular value of W*Phi over all tabulated parameter vectors (full rank instances only)
    pub sig_quarter: Option<f64>,
}

/// C01 / C02 / C10: parameter vectors that compare equal but are different bit patterns (+0.0, -0.0)
/// are different parameters for a model that looks at the sign.  Applied one after the other, every
/// update has to be carried out: coefficients are the optimum for the vector in effect and the state
/// is that of a fresh problem.
fn signed_zero_probe<T: Sc>(rep: &mut Report) {
    let n = 5;
    // y = 2 (i+1) + 1 : optimum c = (2 sign(a), 1), residual 0
    let y1 = DMatrix::from_fn(n, 1, |i, _| T::of64(2.0 * (i as f64 + 1.0) + 1.0));
    let y2 = DMatrix::from_fn(n, 2, |i, s| T::of64(if s == 0 { 2.0 * (i as f64 + 1.0) + 1.0 } else { 3.0 - (i as f64 + 1.0) }));
    for (mrhs, par) in [(false, false), (true, false), (false, true), (true, true)] {
        let y = if mrhs { &y2 } else { &y1 };
        let seq = [0.0f64, -0.0, 0.0, -0.0, -0.0, 1.0, -0.0, 0.0];
        let Ok(mut prob) = build_problem(SignModel::<T>::new(n, T::of64(0.0)), mrhs, par, y, None, None) else {
            rep.tool_error("signed zero probe: cannot build".into());
            return;
        };
        for (step, &a) in seq.iter().enumerate() {
            let flav = format!("signed zero probe {} mrhs={} par={} step={} a={:?}", T::NAME, mrhs, par, step, a);
            let det = |what: &str| json!({"flavour": flav, "what": what});
            prob.set_params(&[T::of64(a)]);
            let sign = if a.is_sign_negative() { -1.0 } else { 1.0 };
            rep.check("C10", prob.params().len() == 1 && prob.params()[0].bits() == T::of64(a).bits(), 0.0, || det("the problem does not report the parameters that were applied, bit for bit"));
            let o = observe(prob.as_ref());
            match (&o.c, &o.r) {
                (Some(c), Some(r)) => {
                    let e0 = [2.0 * sign, 1.0];
                    let e1 = [-1.0 * sign, 3.0];
                    let mut worst = 0.0f64;
                    for j in 0..2 {
                        worst = nmax(worst, (c[j].to64() - e0[j]).abs());
                        if mrhs {
                            worst = nmax(worst, (c[2 + j].to64() - e1[j]).abs());
                        }
                    }
                    rep.check("C01", worst <= T::tol(), worst, || det("coefficients are not the optimum for the parameters in effect (sign of a zero parameter)"));
                    let rmax = r.iter().fold(0.0f64, |m, v| m.max(v.to64().abs()));
                    rep.check("C02", rmax <= T::tol() * 20.0, rmax, || det("residuals do not belong to the parameters in effect (sign of a zero parameter)"));
                }
                _ => rep.violation("C01", det("coefficients absent although the model evaluates")),
            }
            if let Ok(fresh) = build_problem(SignModel::<T>::new(n, T::of64(a)), mrhs, par, y, None, None) {
                let of = observe(fresh.as_ref());
                rep.check("C10", obs_bits_eq(&o, &of), 0.0, || det("state after a history of equal-comparing parameter vectors differs from a fresh problem"));
            }
        }
        rep.count("signed_zero_probes", 1);
    }
}

/// Beyond the universe TLC enumerates: MANY basis functions (M = 25 / 33 well conditioned columns of a
/// truncated Fourier series, N = 120 irregular samples).  No exact oracle here; the optimum is certified
/// by its normal equations (the weighted residual is orthogonal to every weighted basis function), the
/// residual is recomputed, and the parallel problem is compared with the sequential one.
fn many_functions_probe<T: Sc>(rep: &mut Report) {
    if T::NAME != "f64" {
        return; // certificates below are calibrated for f64
    }
    // (65 / 101 / 151 functions: the decomposition needs more than a hundred sweeps)
    for (h, weighted, mrhs, n) in [(12usize, false, false, 120usize), (16, true, false, 120), (12, true, true, 120), (32, false, false, 320), (50, true, true, 500), (75, false, false, 700)] {
        let model0 = FourierModel::<T>::new(n, h, 1.0);
        let m = 2 * h + 1;
        let s = if mrhs { 3 } else { 1 };
        let w: Option<Vec<T>> = if weighted { Some((0..n).map(|i| T::of64(0.5 + ((i * 7) % 11) as f64 / 8.0)).collect()) } else { None };
        // data: a fixed combination of the basis at w = 1.05 plus a deterministic perturbation
        let ptrue = model0.phi64(1.05);
        let y = DMatrix::from_fn(n, s, |i, q| {
            let mut v = 0.0;
            for j in 0..m {
                v += ptrue[(i, j)] * (((j * 5 + q * 3) % 7) as f64 - 3.0) / (1.0 + j as f64);
            }
            T::of64(v + 0.01 * ((i * 13 + q) % 17) as f64)
        });
        let mk = |par: bool| catch_unwind(AssertUnwindSafe(|| build_problem(FourierModel::<T>::new(n, h, 1.0), mrhs, par, &y, w.as_deref(), None)));
        let (mut seq, mut par) = match (mk(false), mk(true)) {
            (Ok(Ok(a)), Ok(Ok(b))) => (a, b),
            (Err(_), _) | (_, Err(_)) => {
                rep.violation("C08", json!({"flavour": format!("many functions probe M={} N={}", 2 * h + 1, n), "what": "building the problem panicked (finite, moderate, well conditioned data)"}));
                continue;
            }
            _ => {
                rep.tool_error("many functions probe: cannot build".into());
                continue;
            }
        };
        rep.ok("C08", 0.0);
        for wv in [1.0f64, 0.93, 1.05] {
            let flav = format!("many functions probe M={} N={} S={} weighted={} w={}", m, n, s, weighted, wv);
            if m > 40 {
                // judged only where the decomposition itself is healthy (known finding D4)
                let p0 = model0.phi64(wv);
                let pw = DMatrix::from_fn(n, m, |i, j| T::of64(w.as_ref().map(|w| w[i].to64()).unwrap_or(1.0) * p0[(i, j)]));
                if !svd_healthy(&pw) {
                    rep.count("many_functions_probe_unhealthy_svd", 1);
                    continue;
                }
            }
            let det = |what: &str, dv: f64| json!({"flavour": flav, "what": what, "dev": dv});
            seq.set_params(&[T::of64(wv)]);
            par.set_params(&[T::of64(wv)]);
            let (os, op) = (observe(seq.as_ref()), observe(par.as_ref()));
            let present = |o: &Obs<T>| o.c.is_some() && o.r.is_some() && o.j.is_some();
            rep.check("C01", present(&os), 0.0, || det("coefficients / residuals / Jacobian absent although the model evaluates (sequential)", 0.0));
            rep.check("C11", present(&op) == present(&os), 0.0, || det("parallel problem exposes something else than the sequential problem", 0.0));
            if present(&os) && present(&op) {
                let dv = obs_close(&os, &op);
                rep.check("C11", dv <= 1e-9, dv, || det("parallel problem differs from the sequential problem", dv));
                for t in [2usize, 3, 7] {
                    let pool = rayon::ThreadPoolBuilder::new().num_threads(t).build().unwrap();
                    let ot = pool.install(|| {
                        par.set_params(&[T::of64(wv)]);
                        observe(par.as_ref())
                    });
                    let dv = obs_close(&os, &ot);
                    rep.check("C11", dv <= 1e-9, dv, || det(&format!("parallel problem in a pool of {t} threads differs from the sequential problem"), dv));
                    crate::report::hash_obs(rep, &ot.c, &ot.r, &ot.j);
                }
            }
            if let (Some(cm), Some(r)) = (&os.cm, &os.r) {
                let phi = model0.phi64(wv);
                let wi = |i: usize| w.as_ref().map(|w| w[i].to64()).unwrap_or(1.0);
                let ymax = y.iter().fold(0.0f64, |mx, v| mx.max(v.to64().abs()));
                let mut worst_r = 0.0f64;
                let mut worst_ne = 0.0f64;
                for q in 0..s {
                    let mut rr = vec![0.0f64; n];
                    for i in 0..n {
                        let mut fit = 0.0;
                        for j in 0..m {
                            fit += phi[(i, j)] * cm[(j, q)].to64();
                        }
                        rr[i] = wi(i) * (y[(i, q)].to64() - fit);
                        worst_r = nmax(worst_r, (r[q * n + i].to64() - rr[i]).abs() / ymax);
                    }
                    // normal equations: (W Phi)^T r = 0
                    for j in 0..m {
                        let mut dot = 0.0;
                        let mut nrm = 0.0;
                        for i in 0..n {
                            dot += wi(i) * phi[(i, j)] * rr[i];
                            nrm += (wi(i) * phi[(i, j)]).powi(2);
                        }
                        worst_ne = nmax(worst_ne, dot.abs() / (nrm.sqrt() * ymax * (n as f64).sqrt()));
                    }
                }
                // C03 certificates: every Jacobian column is orthogonal to the weighted basis functions, and
                // 2 J^T r is the derivative of |r(w)|^2 (central difference of the problem's own residuals,
                // which the two certificates above tie to the data)
                if let Some(jm) = &os.jm {
                    let mut worst_orth = 0.0f64;
                    let jn = jm.iter().fold(0.0f64, |a, v| a + v.to64() * v.to64()).sqrt().max(1e-300);
                    for q in 0..s {
                        for j in 0..m {
                            let mut dot = 0.0;
                            let mut nrm = 0.0;
                            for i in 0..n {
                                dot += wi(i) * phi[(i, j)] * jm[(q * n + i, 0)].to64();
                                nrm += (wi(i) * phi[(i, j)]).powi(2);
                            }
                            worst_orth = nmax(worst_orth, dot.abs() / (nrm.sqrt() * jn));
                        }
                    }
                    rep.check("C03", worst_orth <= 1e-9, worst_orth, || det("a Jacobian column is not orthogonal to the range of the weighted basis matrix", worst_orth));
                    let grad: f64 = 2.0 * (0..n * s).map(|i| jm[(i, 0)].to64() * r[i].to64()).sum::<f64>();
                    let hstep = 1e-6;
                    let f_at = |seq: &mut Box<dyn Prob<T>>, x: f64| -> Option<f64> {
                        seq.set_params(&[T::of64(x)]);
                        seq.residuals().map(|rr| rr.iter().map(|v| v.to64() * v.to64()).sum())
                    };
                    if let (Some(fp), Some(fm)) = (f_at(&mut seq, wv + hstep), f_at(&mut seq, wv - hstep)) {
                        let fd = (fp - fm) / (2.0 * hstep);
                        let dg = (grad - fd).abs() / grad.abs().max(fd.abs()).max(1e-300);
                        // (the central difference itself is less accurate for the high harmonics of the large models)
                        let lim = if m > 40 { 1e-4 } else { 1e-5 };
                        rep.check("C03", dg <= lim, dg, || det("2 J^T r is not the derivative of the projected objective (central difference)", dg));
                    }
                    seq.set_params(&[T::of64(wv)]);
                }
                rep.check("C02", worst_r <= 1e-9, worst_r, || det("residuals differ from W(Y - Phi C) recomputed from the coefficients", worst_r));
                rep.check("C01", worst_ne <= 1e-9, worst_ne, || det("coefficients violate the normal equations: the residual is not orthogonal to the weighted basis functions", worst_ne));
            }
        }
        rep.count("many_functions_probes", 1);
    }
}

/// Beyond the universe TLC enumerates: MANY right hand sides (S = 70 and 131: above and not a multiple of
/// any plausible block size).  Every column of the multi-column problem is compared with the single
/// right hand side problem on that column (coefficients, residual block, Jacobian block), sequential
/// and parallel.
fn many_columns_probe<T: Sc>(rep: &mut Report) {
    // (300 / 515: more than one block of 256 right hand sides, not a multiple of it)
    // (the last three: few columns, many samples - 1025 / 4100 / 16400 rows)
    for (s, weighted, par, n) in [(70usize, false, false, 30usize), (131, true, false, 30), (70, true, true, 30), (300, true, true, 30), (515, false, true, 30), (257, false, false, 30), (3, true, true, 1025), (2, false, true, 4100), (2, true, false, 16400)] {
        let h = 2usize;
        let m = 2 * h + 1;
        let model0 = FourierModel::<T>::new(n, h, 1.0);
        let w: Option<Vec<T>> = if weighted { Some((0..n).map(|i| T::of64(0.5 + ((i * 5) % 7) as f64 / 4.0)).collect()) } else { None };
        let pt = model0.phi64(1.1);
        let y = DMatrix::from_fn(n, s, |i, q| {
            let mut v = 0.0;
            for j in 0..m {
                v += pt[(i, j)] * (((j * 3 + q * 7) % 11) as f64 - 5.0) / 4.0;
            }
            // (f64: two columns live on wildly different scales - nothing global may couple the columns)
            let colscale = if T::NAME == "f64" && q == 3 { (2.0f64).powi(300) } else if T::NAME == "f64" && q == 5 { (2.0f64).powi(-300) } else { 1.0 };
            T::of64((v + 0.25 * ((i * 7 + q * 3) % 13) as f64) * colscale)
        });
        let built = catch_unwind(AssertUnwindSafe(|| build_problem(FourierModel::<T>::new(n, h, 1.0), true, par, &y, w.as_deref(), None)));
        let mut multi = match built {
            Ok(Ok(p)) => p,
            Ok(Err(_)) => {
                rep.tool_error("many columns probe: cannot build".into());
                continue;
            }
            Err(_) => {
                rep.violation("C08", json!({"flavour": format!("many columns probe S={s}"), "what": "building the problem panicked"}));
                continue;
            }
        };
        for wv in [1.0f64, 0.9] {
            multi.set_params(&[T::of64(wv)]);
            let om = observe(multi.as_ref());
            let flav = format!("many columns probe {} M={} N={} S={} weighted={} par={} w={}", T::NAME, m, n, s, weighted, par, wv);
            let (Some(cm), Some(rm), Some(jm)) = (&om.cm, &om.r, &om.jm) else {
                rep.violation("C07", json!({"flavour": flav, "what": "coefficients / residuals / Jacobian absent although the model evaluates"}));
                continue;
            };
            crate::report::hash_obs(rep, &om.c, &om.r, &om.j);
            // C11: independent of the number of worker threads (the same update inside pools of 1, 2, 3 and 7)
            if par {
                for t in [1usize, 2, 3, 7] {
                    let pool = rayon::ThreadPoolBuilder::new().num_threads(t).build().unwrap();
                    let ot = pool.install(|| {
                        multi.set_params(&[T::of64(wv)]);
                        observe(multi.as_ref())
                    });
                    let dv = obs_close(&om, &ot);
                    rep.check("C11", dv <= T::tol(), dv, || json!({"flavour": flav, "threads": t, "dev": dv, "what": "parallel problem depends on the size of the thread pool"}));
                    crate::report::hash_obs(rep, &ot.c, &ot.r, &ot.j);
                }
            }
            // C11: the other flavour of the same problem exposes the same values
            if let Ok(mut other) = build_problem(FourierModel::<T>::new(n, h, 1.0), true, !par, &y, w.as_deref(), None) {
                other.set_params(&[T::of64(wv)]);
                let oo = observe(other.as_ref());
                let dv = obs_close(&om, &oo);
                rep.check("C11", dv <= T::tol(), dv, || json!({"flavour": flav, "dev": dv, "what": "sequential and parallel problem differ (many right hand sides / many samples)"}));
            }
            // C02: the residuals are W(Y - Phi C) for the reported coefficients, column by column
            {
                let pw = model0.phi64(T::of64(wv).to64());
                let wt = |i: usize| w.as_ref().map(|w| w[i].to64()).unwrap_or(1.0);
                let mut worst_r = 0.0f64;
                let mut worst_q = 0usize;
                for q in 0..s {
                    let scale = y.column(q).iter().fold(0.0f64, |mx, v| mx.max(v.to64().abs())).max(1e-300);
                    for i in 0..n {
                        let mut fit = 0.0f64;
                        for j in 0..m {
                            fit += pw[(i, j)] * (cm[(j, q)].to64() / scale);
                        }
                        let e = wt(i) * (y[(i, q)].to64() / scale - fit);
                        let d = (rm[q * n + i].to64() / scale - e).abs();
                        if !(d <= worst_r) {
                            worst_r = if d.is_nan() { f64::INFINITY } else { d };
                            worst_q = q;
                        }
                    }
                }
                rep.check("C02", worst_r <= T::tol(), worst_r, || {
                    json!({"flavour": flav, "col": worst_q, "dev": worst_r, "what": "residual block differs from W(Y - Phi C) recomputed from the reported coefficients of that column"})
                });
            }
            // C01 certificate per column: the residual block is orthogonal to the weighted basis
            {
                let pw = model0.phi64(T::of64(wv).to64());
                let wt = |i: usize| w.as_ref().map(|w| w[i].to64()).unwrap_or(1.0);
                let mut worst_o = 0.0f64;
                let mut worst_q = 0usize;
                for q in 0..s {
                    let scale = y.column(q).iter().fold(0.0f64, |mx, v| mx.max(v.to64().abs())).max(1e-300);
                    for j in 0..m {
                        let mut dot = 0.0f64;
                        for i in 0..n {
                            dot += wt(i) * pw[(i, j)] * rm[q * n + i].to64() / scale;
                        }
                        let d = dot.abs() / (n as f64);
                        if !(d <= worst_o) {
                            worst_o = if d.is_nan() { f64::INFINITY } else { d };
                            worst_q = q;
                        }
                    }
                }
                rep.check("C01", worst_o <= T::tol(), worst_o, || {
                    json!({"flavour": flav, "col": worst_q, "dev": worst_o, "what": "residual block of a right hand side is not orthogonal to the weighted basis: the coefficients of that column are not the least squares optimum"})
                });
            }
            let mut worst = 0.0f64;
            let mut worst_col = 0usize;
            for q in 0..s {
                let yq = DMatrix::from_fn(n, 1, |i, _| y[(i, q)]);
                let Ok(mut single) = build_problem(FourierModel::<T>::new(n, h, 1.0), false, false, &yq, w.as_deref(), None) else {
                    continue;
                };
                single.set_params(&[T::of64(wv)]);
                let os = observe(single.as_ref());
                let (Some(cs), Some(rs), Some(js)) = (&os.cm, &os.r, &os.jm) else {
                    continue;
                };
                let scale = y.column(q).iter().fold(0.0f64, |mx, v| mx.max(v.to64().abs())).max(1e-300);
                let mut d = 0.0f64;
                for j in 0..m {
                    d = nmax(d, (cm[(j, q)].to64() - cs[(j, 0)].to64()).abs() / scale);
                }
                for i in 0..n {
                    d = nmax(d, (rm[q * n + i].to64() - rs[i].to64()).abs() / scale);
                    d = nmax(d, (jm[(q * n + i, 0)].to64() - js[(i, 0)].to64()).abs() / (scale * 10.0));
                }
                if d > worst {
                    worst = d;
                    worst_col = q;
                }
            }
            rep.check("C07", worst <= T::tol(), worst, || {
                json!({"flavour": flav, "col": worst_col, "dev": worst, "what": "column / block differs from the single right hand side problem on that column"})
            });
        }
        rep.count("many_columns_probes", 1);
    }
}

/// health of the decomposition of W*Phi at every tabulated parameter vector of a (twin) table
fn health_of_table<T: Sc>(table: &Table<T>, w: Option<&[T]>) -> Vec<bool> {
    table
        .entries
        .iter()
        .map(|e| {
            let pw = match w {
                Some(w) => DMatrix::from_fn(e.phi.nrows(), e.phi.ncols(), |i, j| w[i] * e.phi[(i, j)]),
                None => e.phi.clone(),
            };
            svd_healthy(&pw)
        })
        .collect()
}

fn svd_healthy<T: Sc>(phi_w: &DMatrix<T>) -> bool {
    // the very call varpro makes; judged by reconstruction and orthonormality of U
    let r = std::panic::catch_unwind(std::panic::AssertUnwindSafe(|| SVD::new(phi_w.clone(), true, true)));
    let svd = match r {
        Ok(s) => s,
        Err(_) => return false,
    };
    let (u, vt) = match (svd.u.as_ref(), svd.v_t.as_ref()) {
        (Some(u), Some(vt)) => (u, vt),
        _ => return false,
    };
    let sig = DMatrix::from_diagonal(&svd.singular_values);
    let rec = u * sig * vt;
    let scale = phi_w.iter().fold(1.0f64, |m, v| m.max(v.to64().abs()));
    let err = (rec - phi_w).iter().fold(0.0f64, |m, v| m.max(v.to64().abs()));
    let utu = u.transpose() * u;
    let k = utu.nrows();
    let mut oerr = 0.0f64;
    for i in 0..k {
        for j in 0..k {
            let e = utu[(i, j)].to64() - if i == j { 1.0 } else { 0.0 };
            oerr = oerr.max(e.abs());
        }
    }
    // columns of U belonging to (numerically) zero singular values need not be orthonormal for
    // the reconstruction; only judge orthonormality when all singular values are non-zero
    let smin = svd.singular_values.iter().fold(f64::INFINITY, |m, v| m.min(v.to64()));
    let ortho_ok = if smin > 1e-6 * scale { oerr <= T::svd_tol() } else { true };
    err.is_finite() && err <= T::svd_tol() * scale && ortho_ok
}

impl<T: Sc> Inst<T> {
    pub fn new(line: &Line, idx: usize, rep: &mut Report) -> Self {
        let n = line.x.len();
        let m = line.fam.m;
        let p = line.fam.p;
        let s = line.y.first().map(|r| r.len()).unwrap_or(0);
        let entries: Vec<TableEntry<T>> = line
            .pts
            .iter()
            .map(|pt| TableEntry {
                a: pt.a.clone(),
                phi: mat_from_rows(&pt.phi, m),
                dphi: pt.dphi.iter().map(|d| mat_from_rows(d, m)).collect(),
            })
            .collect();
        let table = Arc::new(Table { n, m, p, entries });
        let y = mat_from_rows::<T>(&line.y, s);
        let w: Option<Vec<T>> = if line.w.is_empty() {
            None
        } else {
            Some(line.w.iter().map(|&v| T::of64(v as f64)).collect())
        };
        let xs: Vec<T> = line.x.iter().map(|&v| T::of64(v as f64)).collect();
        let poly = poly_is_family(&line.fam.name);
        // cross-check of the Rust polynomial families against the specification's tables
        if poly {
            for e in table.entries.iter() {
                let a: Vec<T> = e.a.iter().map(|&v| T::of64(v as f64)).collect();
                for i in 0..n {
                    for j in 0..m {
                        if poly_phi(&line.fam.name, xs[i], j, &a) != e.phi[(i, j)] {
                            rep.tool_error(format!("family {} phi mismatch vs spec at a={:?} i={} j={}", line.fam.name, e.a, i, j));
                        }
                        for k in 0..p {
                            if poly_dphi(&line.fam.name, xs[i], j, &a, k) != e.dphi[k][(i, j)] {
                                rep.tool_error(format!("family {} dphi mismatch vs spec at a={:?} i={} j={} k={}", line.fam.name, e.a, i, j, k));
                            }
                        }
                    }
                }
            }
        }
        let healthy = table
            .entries
            .iter()
            .map(|e| {
                let pw = match &w {
                    Some(w) => DMatrix::from_fn(n, m, |i, j| w[i] * e.phi[(i, j)]),
                    None => e.phi.clone(),
                };
                svd_healthy(&pw)
            })
            .collect();
        let mfull = m as i64;
        let sig_quarter = if m >= 2 && line.pts.iter().all(|pt| pt.rank == mfull && pt.lvl >= 1) {
            let mut smin = f64::INFINITY;
            for e in table.entries.iter() {
                let pw = DMatrix::<f64>::from_fn(n, m, |i, j| w.as_ref().map(|w| w[i].to64()).unwrap_or(1.0) * e.phi[(i, j)].to64());
                let sv = pw.singular_values();
                smin = sv.iter().fold(smin, |a, v| a.min(*v));
            }
            if smin.is_finite() && smin / 4.0 >= 1e-3 { Some(smin / 4.0) } else { None }
        } else {
            None
        };
        Self {
            line: line.clone(),
            idx,
            n,
            m,
            p,
            s,
            table,
            y,
            w,
            xs,
            healthy,
            poly,
            sig_quarter,
        }
    }

    pub fn eps_value(&self, ev: EpsVar) -> Option<T> {
        match ev {
            EpsVar::Default => None,
            EpsVar::User => Some(T::eps_user()),
            EpsVar::NegUser => Some(-T::eps_user()),
            EpsVar::Between => Some(T::of64(((self.line.epsq as f64) + 0.5).sqrt())),
            EpsVar::Quarter => self.sig_quarter.map(T::of64),
        }
    }

    /// like `make` for the table kind, but the builder calls come in the order weights, epsilon,
    /// observations (the property does not depend on the order of the builder calls)
    fn make_flipped(&self, a0: &[i64], mrhs: bool, par: bool, y: &DMatrix<T>, w: Option<&[T]>, ev: EpsVar) -> Result<Box<dyn Prob<T>>, String> {
        let mut calls = Vec::new();
        if let Some(w) = w {
            calls.push(BCall::Weights(w.to_vec()));
        }
        if let Some(e) = self.eps_value(ev) {
            calls.push(BCall::Epsilon(e));
        }
        calls.push(BCall::Observations(y.clone()));
        build_with_calls(TableModel::new(self.table.clone(), a0), mrhs, par, &calls).map_err(|e| format!("problem builder: {e:?}"))
    }

    /// build a problem of the requested flavour with initial parameters a0
    fn make(
        &self,
        kind: Kind,
        a0: &[i64],
        mrhs: bool,
        par: bool,
        y: &DMatrix<T>,
        w: Option<&[T]>,
        ev: EpsVar,
    ) -> Result<Box<dyn Prob<T>>, String> {
        let eps = self.eps_value(ev);
        let a0t: Vec<T> = a0.iter().map(|&v| T::of64(v as f64)).collect();
        let r = match kind {
            Kind::Table => build_problem(TableModel::new(self.table.clone(), a0), mrhs, par, y, w, eps),
            Kind::TableBuilt | Kind::TableBuiltRev => {
                let mdl = table_model_built(self.table.clone(), a0, kind == Kind::TableBuiltRev)
                    .map_err(|e| format!("model builder: {e:?}"))?;
                build_problem(mdl, mrhs, par, y, w, eps)
            }
            Kind::Poly => build_problem(PolyModel::new(&self.line.fam.name, &self.xs, &a0t), mrhs, par, y, w, eps),
            Kind::PolyBuilt | Kind::PolyBuiltRev => {
                let mdl = poly_model_built(&self.line.fam.name, &self.xs, &a0t, kind == Kind::PolyBuiltRev)
                    .map_err(|e| format!("model builder: {e:?}"))?;
                build_problem(mdl, mrhs, par, y, w, eps)
            }
        };
        r.map_err(|e| format!("problem builder: {e:?}"))
    }
}

fn tag(inst_idx: usize, fam: &FamJ, t: &str, kind: Kind, mrhs: bool, par: bool, ev: EpsVar) -> String {
    format!("line={} fam={}({},{},{}) {} {:?} mrhs={} par={} eps={:?}", inst_idx, fam.name, fam.m, fam.p, fam.seed, t, kind, mrhs, par, ev)
}

/// compare a reported state with the exact expectation of point `pt`
#[allow(clippy::too_many_arguments)]
pub fn check_point_as<T: Sc>(
    inst: &Inst<T>,
    qi: usize,
    prob: &dyn Prob<T>,
    ev: EpsVar,
    flavour: &str,
    want_jac: bool,
    over: Option<&'static str>,
    rep: &mut Report,
) {
    // attribution: by default each observable belongs to its own property; a stage that tests
    // something else (history independence, parallel flavour) can claim all of them
    let c01 = over.unwrap_or("C01");
    let c02 = over.unwrap_or("C02");
    let c03 = over.unwrap_or("C03");
    let c10 = over.unwrap_or("C10");
    let pt = &inst.line.pts[qi];
    let tol = T::tol();
    let m = inst.m as i64;
    let healthy = inst.healthy[qi];
    let fullrank = pt.rank == m && pt.lvl >= 1;
    let deficient = pt.rank >= 0 && pt.rank < m && pt.lvl >= 1;
    let judged_abs = fullrank || (deficient && ev != EpsVar::Default);
    let det = |what: &str, dev: f64| json!({"flavour": flavour, "a": pt.a, "what": what, "dev": dev, "healthy": healthy, "rank": pt.rank});

    // C02: reported parameters are the alpha in effect
    let params = prob.params();
    let pa: Vec<f64> = params.iter().map(|v| v.to64()).collect();
    let pexp: Vec<f64> = pt.a.iter().map(|&v| v as f64).collect();
    rep.check(c02, pa == pexp, 0.0, || det("params", 0.0));

    // C02: weighted data = W*Y exactly as supplied
    let yw = prob.weighted_data();
    let mut ok = yw.nrows() == inst.n && yw.ncols() == inst.s;
    if ok {
        for i in 0..inst.n {
            for s in 0..inst.s {
                if yw[(i, s)].to64() != inst.line.yw[i][s] as f64 {
                    ok = false;
                }
            }
        }
    }
    rep.check(c02, ok, 0.0, || det("weighted_data", 0.0));

    let coeffs = prob.coeffs();
    let resid = prob.residuals();
    // model evaluates on the lattice => everything present
    rep.check(c01, coeffs.is_some(), 0.0, || det("coefficients absent although the model evaluates", 0.0));
    rep.check(c02, resid.is_some(), 0.0, || det("residuals absent although the model evaluates", 0.0));
    let (coeffs, resid) = match (coeffs, resid) {
        (Some(c), Some(r)) => (c, r),
        _ => return,
    };
    crate::report::hash_obs(rep, &Some(coeffs.as_slice().to_vec()), &Some(resid.clone()), &None);
    // C01: finite, right shape
    let shape_ok = coeffs.nrows() == inst.m && coeffs.ncols() == inst.s;
    rep.check(c01, shape_ok, 0.0, || det("coefficient shape", 0.0));
    if !shape_ok {
        return;
    }
    let finite = coeffs.iter().all(|v| v.to64().is_finite()) && resid.iter().all(|v| v.to64().is_finite());
    rep.check(c01, finite, 0.0, || det("non-finite coefficients or residuals", f64::INFINITY));

    // C02 (relative form, independent of the decomposition): residual = Yw - Phi_w * C_reported
    {
        let e = &inst.table.entries[qi];
        let mut worst = 0.0f64;
        let mut len_ok = resid.len() == inst.n * inst.s;
        if len_ok {
            for s in 0..inst.s {
                for i in 0..inst.n {
                    let mut acc = inst.line.yw[i][s] as f64;
                    let wi = inst.w.as_ref().map(|w| w[i].to64()).unwrap_or(1.0);
                    let mut mag = acc.abs();
                    for j in 0..inst.m {
                        let t = wi * e.phi[(i, j)].to64() * coeffs[(j, s)].to64();
                        acc -= t;
                        mag = mag.max(t.abs());
                    }
                    let got = resid[s * inst.n + i].to64();
                    let d = (got - acc).abs() / mag.max(1.0);
                    worst = nmax(worst, d);
                }
            }
        } else {
            len_ok = false;
        }
        let good = len_ok && (worst <= tol || !finite);
        rep.check(c02, good, worst, || det("residual != Yw - Phi_w*C (column-major)", worst));
    }

    // C01 absolute: coefficients are the exact optimum / minimum norm solution
    if judged_abs {
        let mut worst = 0.0f64;
        for j in 0..inst.m {
            for s in 0..inst.s {
                worst = worst.max(dev(coeffs[(j, s)].to64(), pt.cn[j][s], pt.d));
            }
        }
        if worst <= tol {
            rep.ok(c01, worst);
        } else if !healthy {
            rep.known(c01, json!({"key": "svd_unhealthy", "flavour": flavour, "a": pt.a, "dev": worst}));
        } else {
            rep.violation(c01, det("coefficients differ from the exact least squares optimum", worst));
        }
        // C02 absolute: residual vector
        let mut worst = 0.0f64;
        if resid.len() == pt.rn.len() {
            for k in 0..resid.len() {
                worst = worst.max(dev(resid[k].to64(), pt.rn[k], pt.d));
            }
        } else {
            worst = f64::INFINITY;
        }
        if worst <= tol {
            rep.ok(c02, worst);
        } else if !healthy {
            rep.known(c02, json!({"key": "svd_unhealthy", "flavour": flavour, "a": pt.a, "dev": worst}));
        } else {
            rep.violation(c02, det("residual vector differs from W(Y - Phi C) stacked column-major", worst));
        }
    } else {
        rep.count("c01_finiteness_only", 1);
    }

    // C03: Kaufman Jacobian
    if want_jac {
        let jac = prob.jacobian();
        rep.check(c03, jac.is_some(), 0.0, || det("jacobian absent although all derivatives evaluate", 0.0));
        if let Some(jm) = jac {
            crate::report::hash_obs::<T>(rep, &None, &None, &Some(jm.as_slice().to_vec()));
            let shape_ok = jm.nrows() == inst.n * inst.s && jm.ncols() == inst.p;
            rep.check(c03, shape_ok, 0.0, || det("jacobian shape", 0.0));
            if shape_ok && fullrank && pt.lvl >= 2 {
                let d2 = pt.d * pt.d;
                let mut worst = 0.0f64;
                for k in 0..inst.p {
                    for r in 0..jm.nrows() {
                        worst = worst.max(dev(jm[(r, k)].to64(), pt.jn[k][r], d2));
                    }
                }
                if worst <= tol {
                    rep.ok(c03, worst);
                } else if !healthy {
                    rep.known(c03, json!({"key": "svd_unhealthy", "flavour": flavour, "a": pt.a, "dev": worst}));
                } else {
                    rep.violation(c03, det("jacobian differs from -(I-P) W D_k C", worst));
                }
            }
            // C10: repeated queries identical
            if let Some(j2) = prob.jacobian() {
                rep.check(c10, bits_eq(jm.as_slice(), j2.as_slice()), 0.0, || det("repeated jacobian() differs", 0.0));
            }
        }
    }
    // C10: repeated queries identical
    if let (Some(c2), Some(r2)) = (prob.coeffs(), prob.residuals()) {
        rep.check(
            c10,
            bits_eq(coeffs.as_slice(), c2.as_slice()) && bits_eq(&resid, &r2),
            0.0,
            || det("repeated query differs", 0.0),
        );
    }
}

#[allow(clippy::too_many_arguments)]
fn check_point<T: Sc>(inst: &Inst<T>, qi: usize, prob: &dyn Prob<T>, ev: EpsVar, flavour: &str, want_jac: bool, rep: &mut Report) {
    check_point_as(inst, qi, prob, ev, flavour, want_jac, None, rep)
}

fn max_rel_diff<T: Sc>(a: &[T], b: &[T]) -> f64 {
    if a.len() != b.len() {
        return f64::INFINITY;
    }
    let mut w = 0.0f64;
    for (x, y) in a.iter().zip(b.iter()) {
        w = w.max(devf(x.to64(), y.to64()));
    }
    w
}

/// observable state of a problem as flat vectors
pub struct Obs<T: Sc> {
    pub c: Option<Vec<T>>,
    pub r: Option<Vec<T>>,
    pub j: Option<Vec<T>>,
    pub cm: Option<DMatrix<T>>,
    pub jm: Option<DMatrix<T>>,
}
pub fn observe<T: Sc>(p: &dyn Prob<T>) -> Obs<T> {
    let cm = p.coeffs();
    let jm = p.jacobian();
    Obs {
        c: cm.as_ref().map(|m| m.as_slice().to_vec()),
        r: p.residuals(),
        j: jm.as_ref().map(|m| m.as_slice().to_vec()),
        cm,
        jm,
    }
}
pub fn obs_bits_eq<T: Sc>(a: &Obs<T>, b: &Obs<T>) -> bool {
    fn o<T: Sc>(x: &Option<Vec<T>>, y: &Option<Vec<T>>) -> bool {
        match (x, y) {
            (None, None) => true,
            (Some(x), Some(y)) => bits_eq(x, y),
            _ => false,
        }
    }
    o(&a.c, &b.c) && o(&a.r, &b.r) && o(&a.j, &b.j)
}
pub fn obs_close_pub<T: Sc>(a: &Obs<T>, b: &Obs<T>) -> f64 {
    obs_close(a, b)
}
fn obs_close<T: Sc>(a: &Obs<T>, b: &Obs<T>) -> f64 {
    fn o<T: Sc>(x: &Option<Vec<T>>, y: &Option<Vec<T>>) -> f64 {
        match (x, y) {
            (None, None) => 0.0,
            (Some(x), Some(y)) => max_rel_diff(x, y),
            _ => f64::INFINITY,
        }
    }
    o(&a.c, &b.c).max(o(&a.r, &b.r)).max(o(&a.j, &b.j))
}

fn visit_order(npts: usize, idx: usize) -> Vec<usize> {
    // all points starting at a rotating offset, then two revisits (history independence)
    let mut v: Vec<usize> = (0..npts).map(|q| (q + idx) % npts).collect();
    v.push(idx % npts);
    if npts > 1 {
        v.push((idx + npts / 2) % npts);
        v.push((idx + npts / 2) % npts); // same alpha twice in a row
    }
    v
}

fn run_inst<T: Sc>(line: &Line, idx: usize, pools: &Pools, opts: &Opts, rep: &mut Report) {
    let inst = Inst::<T>::new(line, idx, rep);
    if inst.line.pts.is_empty() {
        return;
    }
    let npts = inst.line.pts.len();
    let fam = inst.line.fam.clone();
    let mfull = inst.m as i64;
    rep.count(&format!("instances_{}", T::NAME), 1);
    rep.count("unhealthy_points", inst.healthy.iter().filter(|h| !**h).count() as u64);
    let any_def = inst.line.pts.iter().any(|p| p.rank >= 0 && p.rank < mfull);

    let mut kinds = vec![Kind::Table, Kind::TableBuilt];
    if inst.p >= 2 {
        kinds.push(Kind::TableBuiltRev);
    }
    if inst.poly {
        kinds.push(Kind::Poly);
        kinds.push(Kind::PolyBuilt);
        if inst.p >= 2 {
            kinds.push(Kind::PolyBuiltRev);
        }
    }
    let eps_rot = [EpsVar::Default, EpsVar::User, EpsVar::NegUser];
    let order = visit_order(npts, idx);
    let wref = inst.w.as_deref();
    let a_first = inst.line.pts[order[0]].a.clone();

    for (ki, &kind) in kinds.iter().enumerate() {
        // eps variant: rotate; rank deficient instances get every variant on the table kind
        let mut evs = vec![eps_rot[(idx + ki) % 3]];
        if inst.line.epsq > 0 {
            evs = vec![EpsVar::Between];
        } else if any_def && kind == Kind::Table {
            evs = eps_rot.to_vec();
        } else if kind == Kind::Table && inst.sig_quarter.is_some() {
            evs.push(EpsVar::Quarter);
        }
        for &ev in &evs {
            let mrhs_opts: Vec<bool> = if inst.s >= 2 { vec![true] } else { vec![false, true] };
            for &mrhs in &mrhs_opts {
                let flav = tag(idx, &fam, T::NAME, kind, mrhs, false, ev);
                if let Some(rf) = &opts.replay_flavour {
                    if !flav.contains(rf.as_str()) {
                        continue;
                    }
                }
                let built = if kind == Kind::Table && (idx + ki) % 2 == 1 {
                    inst.make_flipped(&a_first, mrhs, false, &inst.y, wref, ev)
                } else {
                    inst.make(kind, &a_first, mrhs, false, &inst.y, wref, ev)
                };
                let mut prob = match built {
                    Ok(p) => p,
                    Err(e) => {
                        // C18: consistent inputs must build
                        rep.violation("C18", json!({"flavour": flav, "what": "build failed on consistent inputs", "err": e}));
                        continue;
                    }
                };
                rep.count("problems_built", 1);
                // initial observation = state at the model's alpha (C18/C01/C02)
                check_point(&inst, order[0], prob.as_ref(), ev, &flav, true, rep);
                for (step, &qi) in order.iter().enumerate() {
                    let a: Vec<T> = inst.line.pts[qi].a.iter().map(|&v| T::of64(v as f64)).collect();
                    prob.set_params(&a);
                    check_point(&inst, qi, prob.as_ref(), ev, &flav, true, rep);
                    rep.count("points_checked", 1);
                    // C10: identical to a freshly built problem at alpha (only on some steps: cost)
                    if step % 2 == 0 || step + 3 >= order.len() {
                        if let Ok(fresh) = inst.make(kind, &inst.line.pts[qi].a, mrhs, false, &inst.y, wref, ev) {
                            let o1 = observe(prob.as_ref());
                            let o2 = observe(fresh.as_ref());
                            rep.check("C10", obs_bits_eq(&o1, &o2), 0.0, || {
                                json!({"flavour": flav, "a": inst.line.pts[qi].a, "what": "state after history differs from fresh problem", "step": step})
                            });
                            // C02: best fit of a result = Phi(alpha) * C in the shape of the observations
                            let fin = fresh.finish();
                            check_finish(&inst, qi, &fin, ev, &flav, rep);
                        }
                    }
                }
                // C07: one-column mrhs problem indistinguishable from the single rhs problem
                if inst.s == 1 && mrhs && kind == Kind::Table {
                    if let Ok(mut single) = inst.make(kind, &a_first, false, false, &inst.y, wref, ev) {
                        for &qi in order.iter().take(npts) {
                            let a: Vec<T> = inst.line.pts[qi].a.iter().map(|&v| T::of64(v as f64)).collect();
                            prob.set_params(&a);
                            single.set_params(&a);
                            let o1 = observe(prob.as_ref());
                            let o2 = observe(single.as_ref());
                            let dv = obs_close(&o1, &o2);
                            rep.check("C07", dv <= T::tol(), dv, || {
                                json!({"flavour": flav, "a": inst.line.pts[qi].a, "what": "one-column mrhs problem differs from single rhs problem", "dev": dv})
                            });
                        }
                    }
                }
            }
        }
    }

    // ---------------- column-scaled twins: one basis function (and its derivatives) times 2^-30 ----------------
    // The coefficient of that function grows by 2^30, Phi*C, the residuals and the Kaufman Jacobian do not
    // change at all - but the weighted basis matrix now has a singular value of order 1e-9 while still
    // having full column rank (C03: "whenever the weighted basis matrix has full column rank").
    if T::NAME == "f64" && inst.m >= 2 && idx % 3 == 0 {
        let jcol = inst.m - 1;
        // alternately a tiny and a huge scale; on every fourth of these instances ALL functions are scaled
        // by 2^+-600 instead (squares of the entries are not representable; with the tiny scale the caller
        // has to pass a threshold of zero, the default one would count every singular value as zero)
        let all = (idx / 3) % 4 == 3;
        let sexp: i32 = if all { if idx % 2 == 0 { -600 } else { 600 } } else if idx % 2 == 0 { -30 } else { 24 };
        let sc = T::of64((2.0f64).powi(sexp));
        let twin_eps: Option<T> = if all && sexp < 0 { Some(T::zero()) } else { None };
        let scaled = Arc::new(Table {
            n: inst.n,
            m: inst.m,
            p: inst.p,
            entries: inst
                .table
                .entries
                .iter()
                .map(|e| {
                    let f = |mtx: &DMatrix<T>| DMatrix::from_fn(mtx.nrows(), mtx.ncols(), |i, j| if all || j == jcol { mtx[(i, j)] * sc } else { mtx[(i, j)] });
                    TableEntry {
                        a: e.a.clone(),
                        phi: f(&e.phi),
                        dphi: e.dphi.iter().map(f).collect(),
                    }
                })
                .collect(),
        });
        let mrhs = inst.s >= 2;
        let twin_par = (idx / 3) % 2 == 1;
        let flav = format!("{} column-scaled twin ({} x 2^{})", tag(idx, &fam, T::NAME, Kind::Table, mrhs, twin_par, EpsVar::Default), if all { "all functions".to_string() } else { format!("function {}", jcol) }, sexp);
        // the twin's matrix is another matrix: the health of ITS decomposition decides whether it is judged
        let twin_health = health_of_table(&scaled, wref);
        // (every other twin through the parallel constructors: size and scale dependent paths exist in both copies)
        if let Ok(mut twin) = build_problem(TableModel::new(scaled, &a_first), mrhs, twin_par, &inst.y, wref, twin_eps) {
            for &qi in order.iter().take(npts) {
                let pt = &inst.line.pts[qi];
                if !(pt.rank == mfull && pt.lvl >= 2 && inst.healthy[qi]) {
                    continue;
                }
                if !twin_health[qi] {
                    rep.count("twin_points_skipped_unhealthy_svd", 1);
                    continue;
                }
                let a: Vec<T> = pt.a.iter().map(|&v| T::of64(v as f64)).collect();
                twin.set_params(&a);
                let det = |what: &str, dv: f64| json!({"flavour": flav, "a": pt.a, "what": what, "dev": dv});
                if let (Some(c), Some(r)) = (twin.coeffs(), twin.residuals()) {
                    let mut wc = 0.0f64;
                    for j in 0..inst.m {
                        for s in 0..inst.s {
                            let scale = if all || j == jcol { (2.0f64).powi(-sexp) } else { 1.0 };
                            let e = pt.cn[j][s] as f64 / pt.d as f64 * scale;
                            // relative to the magnitude this coefficient row has
                            wc = nmax(wc, (c[(j, s)].to64() - e).abs() / (scale * (pt.cn[j][s] as f64 / pt.d as f64).abs().max(1.0)));
                        }
                    }
                    rep.check("C01", wc <= 1e-5, wc, || det("coefficients of the column-scaled twin", wc));
                    let mut wr = 0.0f64;
                    if r.len() == pt.rn.len() {
                        for k in 0..r.len() {
                            wr = wr.max(dev(r[k].to64(), pt.rn[k], pt.d));
                        }
                    } else {
                        wr = f64::INFINITY;
                    }
                    rep.check("C02", wr <= 1e-5, wr, || det("residuals change when a basis function is rescaled", wr));
                } else {
                    rep.violation("C01", det("coefficients or residuals absent although every value of the rescaled model is finite", 0.0));
                    if twin_par {
                        rep.violation("C11", det("the parallel problem exposes nothing where the sequential problem (every value finite) has coefficients and residuals", 0.0));
                    }
                }
                if twin_par {
                    rep.ok("C11", 0.0);
                }
                let jac = twin.jacobian();
                if jac.is_none() {
                    rep.violation("C03", det("jacobian absent although every value of the rescaled model and its derivatives is finite", 0.0));
                }
                if let Some(jm) = jac {
                    let d2 = pt.d * pt.d;
                    let mut wj = 0.0f64;
                    for k in 0..inst.p {
                        for r in 0..jm.nrows() {
                            wj = wj.max(dev(jm[(r, k)].to64(), pt.jn[k][r], d2));
                        }
                    }
                    rep.check("C03", wj <= 1e-5, wj, || det("Jacobian differs from -(I-P) W D_k C although the weighted basis matrix has full column rank (smallest singular value ~1e-9)", wj));
                }
                rep.count("column_scaled_twin_points", 1);
            }
        }
    }

    // ---------------- data-scaled and row-replicated twins ----------------
    // Everything a problem exposes is linear in the observations: Y * 2^k gives coefficients, residuals
    // and Jacobian * 2^k (no absolute magnitude plays a role).  Replicating every sample K times (same
    // row of the model, same observation, same weight) leaves the optimum where it is: same
    // coefficients, residuals and Jacobian rows repeated - at a sample count far beyond the lattice.
    if idx % 3 != 0 || inst.m < 2 {
        let mrhs = inst.s >= 2 || idx % 5 == 0;
        let par = idx % 4 == 1;
        // moderate and extreme factors: with 2^+-600 (f64) / 2^+-80 (f32) the SQUARES of the coefficients,
        // residuals and Jacobian entries are not representable (any norm or test that squares them over- or underflows)
        let yexp: i32 = if T::NAME == "f64" { [-40, 40, -600, 600][(idx / 2) % 4] } else { [-20, 20, -80, 80][(idx / 2) % 4] };
        let kk: usize = [1usize, 40, 7][idx % 3];
        let n2 = inst.n * kk;
        let ysc = T::of64((2.0f64).powi(yexp));
        let rep_rows = |mtx: &DMatrix<T>| DMatrix::from_fn(n2, mtx.ncols(), |i, j| mtx[(i % inst.n, j)]);
        let table2 = Arc::new(Table {
            n: n2,
            m: inst.m,
            p: inst.p,
            entries: inst.table.entries.iter().map(|e| TableEntry { a: e.a.clone(), phi: rep_rows(&e.phi), dphi: e.dphi.iter().map(rep_rows).collect() }).collect(),
        });
        let y2 = DMatrix::from_fn(n2, inst.s, |i, s| inst.y[(i % inst.n, s)] * ysc);
        let w2: Option<Vec<T>> = inst.w.as_ref().map(|w| (0..n2).map(|i| w[i % inst.n]).collect());
        let flav = format!("{} twin: observations x 2^{}, every sample x{}", tag(idx, &fam, T::NAME, Kind::Table, mrhs, par, EpsVar::Default), yexp, kk);
        let unscale = (2.0f64).powi(-yexp);
        let twin_health = health_of_table(&table2, w2.as_deref());
        if let Ok(mut twin) = build_problem(TableModel::new(table2, &a_first), mrhs, par, &y2, w2.as_deref(), None) {
            for &qi in order.iter().take(npts) {
                let pt = &inst.line.pts[qi];
                if !(pt.rank == mfull && pt.lvl >= 1 && inst.healthy[qi]) {
                    continue;
                }
                if !twin_health[qi] {
                    rep.count("twin_points_skipped_unhealthy_svd", 1);
                    continue;
                }
                let a: Vec<T> = pt.a.iter().map(|&v| T::of64(v as f64)).collect();
                twin.set_params(&a);
                let det = |what: &str, dv: f64| json!({"flavour": flav, "a": pt.a, "what": what, "dev": dv});
                let tol = T::tol() * 10.0;
                match (twin.coeffs(), twin.residuals()) {
                    (Some(c), Some(r)) => {
                        let mut wc = 0.0f64;
                        for j in 0..inst.m {
                            for s in 0..inst.s {
                                wc = wc.max(dev(c[(j, s)].to64() * unscale, pt.cn[j][s], pt.d));
                            }
                        }
                        rep.check("C01", wc <= tol, wc, || det("coefficients do not scale with the observations / change when samples are replicated", wc));
                        let mut wr = 0.0f64;
                        if r.len() == n2 * inst.s {
                            for s in 0..inst.s {
                                for i in 0..n2 {
                                    wr = wr.max(dev(r[s * n2 + i].to64() * unscale, pt.rn[s * inst.n + i % inst.n], pt.d));
                                }
                            }
                        } else {
                            wr = f64::INFINITY;
                        }
                        rep.check("C02", wr <= tol, wr, || det("residuals do not scale with the observations / are not repeated for replicated samples", wr));
                    }
                    _ => rep.violation("C02", det("coefficients or residuals absent although the model evaluates", 0.0)),
                }
                if pt.lvl >= 2 {
                    match twin.jacobian() {
                        Some(jm) if jm.nrows() == n2 * inst.s && jm.ncols() == inst.p => {
                            let d2 = pt.d * pt.d;
                            let mut wj = 0.0f64;
                            for k in 0..inst.p {
                                for s in 0..inst.s {
                                    for i in 0..n2 {
                                        wj = wj.max(dev(jm[(s * n2 + i, k)].to64() * unscale, pt.jn[k][s * inst.n + i % inst.n], d2));
                                    }
                                }
                            }
                            rep.check("C03", wj <= tol, wj, || det("Jacobian does not scale with the observations / rows not repeated for replicated samples", wj));
                        }
                        _ => rep.violation("C03", det("jacobian absent or of the wrong shape", 0.0)),
                    }
                }
                rep.count("data_scaled_replicated_twin_points", 1);
            }
        }
    }

    // ---------------- C07: column-wise independence, permutation ----------------
    if inst.s >= 2 {
        let ev = EpsVar::User;
        let flav = tag(idx, &fam, T::NAME, Kind::Table, true, false, ev);
        let multi_par = idx % 2 == 1;
        // on some instances ONE observation column is not finite (all NaN, or one +inf entry): whatever
        // that column yields, the other columns must not notice
        let bad: Option<&str> = match idx % 10 {
            2 => Some("column 0 all NaN"),
            7 => Some("one +inf in the last column"),
            _ => None,
        };
        let flav = format!("{} multi_par={}{}", flav, multi_par, bad.map(|b| format!(" ({b})")).unwrap_or_default());
        let ymat: DMatrix<T> = match idx % 10 {
            2 => DMatrix::from_fn(inst.n, inst.s, |i, s| if s == 0 { T::of64(f64::NAN) } else { inst.y[(i, s)] }),
            7 => DMatrix::from_fn(inst.n, inst.s, |i, s| if s == inst.s - 1 && i == 0 { T::of64(f64::INFINITY) } else { inst.y[(i, s)] }),
            _ => inst.y.clone(),
        };
        let inst_y = &ymat;
        if let Ok(mut multi) = inst.make(Kind::Table, &a_first, true, multi_par, inst_y, wref, ev) {
            let mut singles = Vec::new();
            for s in 0..inst.s {
                let ycol = DMatrix::from_fn(inst.n, 1, |i, _| inst_y[(i, s)]);
                singles.push(inst.make(Kind::Table, &a_first, false, false, &ycol, wref, ev));
            }
            // permuted observation columns (reversed)
            let yperm = DMatrix::from_fn(inst.n, inst.s, |i, s| inst_y[(i, inst.s - 1 - s)]);
            let mut perm = inst.make(Kind::Table, &a_first, true, multi_par, &yperm, wref, ev).ok();
            for &qi in order.iter().take(npts) {
                let a: Vec<T> = inst.line.pts[qi].a.iter().map(|&v| T::of64(v as f64)).collect();
                multi.set_params(&a);
                let om = observe(multi.as_ref());
                for (s, sp) in singles.iter_mut().enumerate() {
                    let sp = match sp {
                        Ok(p) => p,
                        Err(_) => continue,
                    };
                    sp.set_params(&a);
                    let os = observe(sp.as_ref());
                    let mut worst = 0.0f64;
                    let mut shape_ok = true;
                    match (&om.cm, &os.cm) {
                        (Some(cm), Some(cs)) => {
                            for j in 0..inst.m {
                                worst = worst.max(devf(cm[(j, s)].to64(), cs[(j, 0)].to64()));
                            }
                        }
                        (None, None) => {}
                        _ => shape_ok = false,
                    }
                    match (&om.r, &os.r) {
                        (Some(rm), Some(rs)) if rm.len() == inst.n * inst.s && rs.len() == inst.n => {
                            for i in 0..inst.n {
                                worst = worst.max(devf(rm[s * inst.n + i].to64(), rs[i].to64()));
                            }
                        }
                        (None, None) => {}
                        _ => shape_ok = false,
                    }
                    match (&om.jm, &os.jm) {
                        (Some(jm), Some(js)) if jm.nrows() == inst.n * inst.s && js.nrows() == inst.n => {
                            for k in 0..inst.p {
                                for i in 0..inst.n {
                                    worst = worst.max(devf(jm[(s * inst.n + i, k)].to64(), js[(i, k)].to64()));
                                }
                            }
                        }
                        (None, None) => {}
                        _ => shape_ok = false,
                    }
                    let good = shape_ok && (worst <= T::tol() || !inst.healthy[qi]);
                    rep.check("C07", good, worst, || {
                        json!({"flavour": flav, "a": inst.line.pts[qi].a, "col": s, "what": "column/block s differs from the single-column problem", "dev": worst})
                    });
                }
                if let Some(pp) = perm.as_mut() {
                    pp.set_params(&a);
                    let op = observe(pp.as_ref());
                    let mut worst = 0.0f64;
                    if om.cm.is_some() != op.cm.is_some() || om.r.is_some() != op.r.is_some() || om.jm.is_some() != op.jm.is_some() {
                        worst = f64::INFINITY; // present for one column order, absent for the other
                    }
                    if let (Some(cm), Some(cp)) = (&om.cm, &op.cm) {
                        for s in 0..inst.s {
                            for j in 0..inst.m {
                                worst = worst.max(devf(cm[(j, s)].to64(), cp[(j, inst.s - 1 - s)].to64()));
                            }
                        }
                    }
                    if let (Some(rm), Some(rp)) = (&om.r, &op.r) {
                        for s in 0..inst.s {
                            for i in 0..inst.n {
                                worst = worst.max(devf(rm[s * inst.n + i].to64(), rp[(inst.s - 1 - s) * inst.n + i].to64()));
                            }
                        }
                    }
                    if let (Some(jm), Some(jp)) = (&om.jm, &op.jm) {
                        for k in 0..inst.p {
                            for s in 0..inst.s {
                                for i in 0..inst.n {
                                    worst = worst.max(devf(jm[(s * inst.n + i, k)].to64(), jp[((inst.s - 1 - s) * inst.n + i, k)].to64()));
                                }
                            }
                        }
                    }
                    let good = worst <= T::tol() || !inst.healthy[qi];
                    rep.check("C07", good, worst, || {
                        json!({"flavour": flav, "a": inst.line.pts[qi].a, "what": "permuting observation columns does not permute coefficients/blocks", "dev": worst})
                    });
                }
            }
        }
    }

    // ---------------- C06: weights = row scaling, applied once ----------------
    // (instances without weights get a uniform weight vector different from one: all weights equal is
    // not the same as no weights - residuals scale with them)
    let uniform: Vec<T> = vec![T::of64(if idx % 4 < 2 { 3.0 } else { 0.25 }); inst.n];
    let wref_c06: Option<&[T]> = Some(inst.w.as_deref().unwrap_or(&uniform));
    if let Some(w) = wref_c06.map(|w| w.to_vec()).as_ref() {
        let wref = wref_c06;
        let ev = EpsVar::User;
        let flav = format!("{}{}", tag(idx, &fam, T::NAME, Kind::Table, inst.s >= 2, false, ev), if inst.w.is_none() { " uniform-weights" } else { "" });
        let mrhs = inst.s >= 2;
        let scaled_table = Arc::new(inst.table.row_scaled(w));
        let yscaled = DMatrix::from_fn(inst.n, inst.s, |i, s| w[i] * inst.y[(i, s)]);
        let twin = build_problem(TableModel::new(scaled_table, &a_first), mrhs, false, &yscaled, None, inst.eps_value(ev));
        // the builder calls in both orders: weights -> observations on odd instances
        // ... and with an earlier weight vector that a later call replaces (the data are weighted once,
        // with the weights in force when the problem is built)
        let decoy: Vec<T> = w.iter().map(|v| *v * T::of64(2.0) + T::one()).collect();
        let weighted = if idx % 4 >= 2 {
            let mut calls = if idx % 4 == 2 {
                vec![BCall::Observations(inst.y.clone()), BCall::Weights(decoy), BCall::Weights(w.clone())]
            } else {
                vec![BCall::Weights(decoy), BCall::Observations(inst.y.clone()), BCall::Weights(w.clone())]
            };
            if let Some(e) = inst.eps_value(ev) {
                calls.push(BCall::Epsilon(e));
            }
            build_with_calls(TableModel::new(inst.table.clone(), &a_first), mrhs, false, &calls).map_err(|e| format!("{e:?}"))
        } else if idx % 2 == 1 {
            let mut calls = vec![BCall::Weights(w.clone()), BCall::Observations(inst.y.clone())];
            if let Some(e) = inst.eps_value(ev) {
                calls.push(BCall::Epsilon(e));
            }
            build_with_calls(TableModel::new(inst.table.clone(), &a_first), mrhs, false, &calls).map_err(|e| format!("{e:?}"))
        } else {
            inst.make(Kind::Table, &a_first, mrhs, false, &inst.y, wref, ev)
        };
        let unit_none = if w.iter().all(|v| v.to64() == 1.0) {
            inst.make(Kind::Table, &a_first, mrhs, false, &inst.y, None, ev).ok()
        } else {
            None
        };
        let mut unit_none = unit_none;
        // a zero weight removes the influence of that sample: perturb y there
        let zero_rows: Vec<usize> = (0..inst.n).filter(|&i| w[i].to64() == 0.0).collect();
        let mut perturbed = if !zero_rows.is_empty() {
            let yp = DMatrix::from_fn(inst.n, inst.s, |i, s| {
                if zero_rows.contains(&i) {
                    inst.y[(i, s)] + T::of64(7.0 + s as f64)
                } else {
                    inst.y[(i, s)]
                }
            });
            inst.make(Kind::Table, &a_first, mrhs, false, &yp, wref, ev).ok()
        } else {
            None
        };
        if let (Ok(mut twin), Ok(mut weighted)) = (twin, weighted) {
            if idx % 3 == 1 {
                // an update that the model rejects (one parameter too many) comes first on both problems:
                // the weights stay what they are "along the whole history"
                let bad: Vec<T> = vec![T::one(); inst.p + 1];
                twin.set_params(&bad);
                weighted.set_params(&bad);
                rep.check("C06", weighted.has_diag_weights(), 0.0, || json!({"flavour": flav, "what": "the problem no longer carries its weights after an update that the model rejected"}));
            }
            for &qi in order.iter().take(npts) {
                let a: Vec<T> = inst.line.pts[qi].a.iter().map(|&v| T::of64(v as f64)).collect();
                twin.set_params(&a);
                weighted.set_params(&a);
                let ow = observe(weighted.as_ref());
                let ot = observe(twin.as_ref());
                let dv = obs_close(&ow, &ot);
                let good = dv <= T::tol() || !inst.healthy[qi];
                rep.check("C06", good, dv, || {
                    json!({"flavour": flav, "a": inst.line.pts[qi].a, "what": "weighted problem differs from its row-scaled unweighted twin", "dev": dv})
                });
                if obs_bits_eq(&ow, &ot) {
                    rep.count("c06_twin_bitwise_equal", 1);
                } else {
                    rep.count("c06_twin_bitwise_drift", 1);
                }
                if let Some(un) = unit_none.as_mut() {
                    un.set_params(&a);
                    let ou = observe(un.as_ref());
                    let dv = obs_close(&ow, &ou);
                    rep.check("C06", dv <= T::tol(), dv, || {
                        json!({"flavour": flav, "a": inst.line.pts[qi].a, "what": "unit weight vector differs from no weights", "dev": dv})
                    });
                }
                if let Some(pp) = perturbed.as_mut() {
                    pp.set_params(&a);
                    let op = observe(pp.as_ref());
                    let dv = obs_close(&ow, &op);
                    rep.check("C06", dv <= T::tol(), dv, || {
                        json!({"flavour": flav, "a": inst.line.pts[qi].a, "what": "observation with zero weight influences the result", "dev": dv})
                    });
                }
            }
        }
    }

    // ---------------- C11: parallel == sequential, any pool size ----------------
    {
        let (psize, pool) = &pools.pools[idx % pools.pools.len()];
        let mrhs = inst.s >= 2 || idx % 2 == 1;
        let ev = eps_rot[idx % 3];
        for &kind in [Kind::Table, Kind::TableBuilt].iter() {
            let flav = format!("{} pool={}", tag(idx, &fam, T::NAME, kind, mrhs, true, ev), psize);
            let seq = inst.make(kind, &a_first, mrhs, false, &inst.y, wref, ev);
            let par = inst.make(kind, &a_first, mrhs, true, &inst.y, wref, ev);
            let (mut seq, mut par) = match (seq, par) {
                (Ok(s), Ok(p)) => (s, p),
                _ => {
                    rep.violation("C11", json!({"flavour": flav, "what": "parallel or sequential construction failed"}));
                    continue;
                }
            };
            rep.check("C11", par.is_par() && !seq.is_par(), 0.0, || json!({"flavour": flav, "what": "flavour flags"}));
            for &qi in order.iter() {
                let a: Vec<T> = inst.line.pts[qi].a.iter().map(|&v| T::of64(v as f64)).collect();
                seq.set_params(&a);
                let (opar, _) = pool.install(|| {
                    par.set_params(&a);
                    (observe(par.as_ref()), ())
                });
                let oseq = observe(seq.as_ref());
                let dv = obs_close(&oseq, &opar);
                rep.check("C11", dv <= T::tol(), dv, || {
                    json!({"flavour": flav, "a": inst.line.pts[qi].a, "what": "parallel problem differs from sequential problem", "dev": dv})
                });
                if obs_bits_eq(&oseq, &opar) {
                    rep.count("c11_bitwise_equal", 1);
                } else {
                    rep.count("c11_bitwise_drift", 1);
                }
                // the parallel flavour must satisfy the specification as well
                pool.install(|| check_point(&inst, qi, par.as_ref(), ev, &flav, true, rep));
            }
            // into_sequential preserves every observable
            let before = pool.install(|| observe(par.as_ref()));
            let pb = par.params();
            let conv = par.into_seq();
            let after = observe(conv.as_ref());
            rep.check("C11", obs_bits_eq(&before, &after) && bits_eq(&pb, &conv.params()) && !conv.is_par(), 0.0, || {
                json!({"flavour": flav, "what": "into_sequential changed the state"})
            });
            let back = conv.into_par();
            let again = pool.install(|| observe(back.as_ref()));
            rep.check("C11", obs_bits_eq(&before, &again) && bits_eq(&pb, &back.params()), 0.0, || {
                json!({"flavour": flav, "what": "into_parallel changed the state"})
            });
        }
    }
    let _ = opts.only_f64;
}

fn check_finish<T: Sc>(inst: &Inst<T>, qi: usize, fin: &Finish<T>, ev: EpsVar, flavour: &str, rep: &mut Report) {
    let pt = &inst.line.pts[qi];
    let m = inst.m as i64;
    let fullrank = pt.rank == m && pt.lvl >= 1;
    let healthy = inst.healthy[qi];
    let det = |what: &str, dev: f64| json!({"flavour": flavour, "a": pt.a, "what": what, "dev": dev});
    let pa: Vec<f64> = fin.params.iter().map(|v| v.to64()).collect();
    let pexp: Vec<f64> = pt.a.iter().map(|&v| v as f64).collect();
    rep.check("C02", pa == pexp, 0.0, || det("FitResult::nonlinear_parameters", 0.0));
    match &fin.best_fit {
        None => rep.violation("C02", det("best_fit absent although the model evaluates", 0.0)),
        Some(bf) => {
            let shape_ok = bf.nrows() == inst.n && bf.ncols() == inst.s;
            rep.check("C02", shape_ok, 0.0, || det("best_fit shape", 0.0));
            if shape_ok {
                // relative form: best fit = Phi * C_reported (unweighted Phi)
                if let Some(c) = &fin.coeffs {
                    let e = &inst.table.entries[qi];
                    let mut worst = 0.0f64;
                    for i in 0..inst.n {
                        for s in 0..inst.s {
                            let mut acc = 0.0f64;
                            let mut mag = 1.0f64;
                            for j in 0..inst.m {
                                let t = e.phi[(i, j)].to64() * c[(j, s)].to64();
                                acc += t;
                                mag = mag.max(t.abs());
                            }
                            worst = nmax(worst, (bf[(i, s)].to64() - acc).abs() / mag);
                        }
                    }
                    let fin_ok = c.iter().all(|v| v.to64().is_finite());
                    rep.check("C02", worst <= T::tol() || !fin_ok, worst, || det("best_fit != Phi(alpha)*C", worst));
                }
                if fullrank && !pt.bn.is_empty() {
                    let mut worst = 0.0f64;
                    for i in 0..inst.n {
                        for s in 0..inst.s {
                            worst = worst.max(dev(bf[(i, s)].to64(), pt.bn[i][s], pt.d));
                        }
                    }
                    if worst <= T::tol() {
                        rep.ok("C02", worst);
                    } else if !healthy {
                        rep.known("C02", json!({"key": "svd_unhealthy", "flavour": flavour, "a": pt.a, "dev": worst}));
                    } else {
                        rep.violation("C02", det("best_fit differs from Phi*C_exact", worst));
                    }
                }
            }
        }
    }
    let _ = ev;
}

/// C10: NaN is a parameter value like any other.  After an update with a NaN component the problem
/// reports those parameters and exposes what a fresh problem at them exposes (here: nothing, the model
/// does not evaluate off its table) - not the values of the previous parameters.
fn nan_parameter_probe<T: Sc>(rep: &mut Report) {
    let n = 4usize;
    let entry = |a: i64| TableEntry {
        a: vec![a, 0],
        phi: DMatrix::from_fn(n, 2, |i, j| T::of64(if j == 0 { (i as f64 + 1.0 + a as f64) } else { 1.0 })),
        dphi: vec![DMatrix::from_fn(n, 2, |i, j| T::of64(if j == 0 { i as f64 } else { 0.0 })), DMatrix::from_element(n, 2, T::zero())],
    };
    let table = Arc::new(Table { n, m: 2, p: 2, entries: vec![entry(0), entry(1)] });
    let y = DMatrix::from_fn(n, 1, |i, _| T::of64([3.0, -1.0, 2.0, 5.0][i]));
    for par in [false, true] {
        for mrhs in [false, true] {
            let Ok(mut prob) = build_problem(TableModel::new(table.clone(), &[0, 0]), mrhs, par, &y, None, None) else {
                rep.tool_error("nan parameter probe: cannot build".into());
                continue;
            };
            let nan = T::of64(f64::NAN);
            let steps: Vec<Vec<T>> = vec![
                vec![T::of64(1.0), T::zero()],
                vec![nan, T::zero()],
                vec![T::of64(1.0), T::zero()],
                vec![T::of64(1.0), nan],
                vec![nan, nan],
                vec![T::zero(), T::zero()],
            ];
            for (step, a) in steps.iter().enumerate() {
                let flav = format!("nan parameter probe {} mrhs={} par={} step={}", T::NAME, mrhs, par, step);
                let det = |what: &str| json!({"flavour": flav, "what": what});
                prob.set_params(a);
                let has_nan = a.iter().any(|v| v.to64().is_nan());
                let o = observe(prob.as_ref());
                rep.check("C10", bits_eq(&prob.params(), a), 0.0, || det("the problem does not report the parameters that were applied"));
                if has_nan {
                    rep.check("C10", o.c.is_none() && o.r.is_none() && o.j.is_none(), 0.0, || det("values of earlier parameters are exposed after an update with NaN parameters (a fresh problem exposes nothing there)"));
                } else {
                    let fresh = build_problem(TableModel::new(table.clone(), &[a[0].to64() as i64, 0]), mrhs, par, &y, None, None);
                    if let Ok(f) = fresh {
                        rep.check("C10", obs_bits_eq(&o, &observe(f.as_ref())), 0.0, || det("state after a history with NaN parameters differs from a fresh problem"));
                    }
                }
            }
            rep.count("nan_parameter_probes", 1);
        }
    }
}

/// C01: subnormal numbers are finite numbers.  A basis function that decays into the subnormal range
/// inside the sample window (exp(-t/tau) far out) evaluates like any other.
fn subnormal_probe<T: Sc>(rep: &mut Report) {
    let (s1, s2) = if T::NAME == "f64" { (1e-310f64, 5e-320) } else { (1e-40f64, 1e-44) };
    let col0 = [1.0, 1e-3, 1e-8, s1, s2, 0.0];
    let n = col0.len();
    if T::of64(s1).to64() == 0.0 || T::of64(s2).to64() == 0.0 {
        rep.tool_error("subnormal probe: values are not representable".into());
        return;
    }
    let entry = TableEntry {
        a: vec![0],
        phi: DMatrix::from_fn(n, 2, |i, j| T::of64(if j == 0 { col0[i] } else { 1.0 })),
        dphi: vec![DMatrix::from_fn(n, 2, |i, j| T::of64(if j == 0 { -(i as f64) * col0[i] } else { 0.0 }))],
    };
    let table = Arc::new(Table { n, m: 2, p: 1, entries: vec![entry] });
    for (mrhs, par, weighted) in [(false, false, false), (true, false, true), (false, true, true), (true, true, false)] {
        let w: Option<Vec<T>> = if weighted { Some((0..n).map(|i| T::of64(1.0 + (i % 2) as f64)).collect()) } else { None };
        let y = DMatrix::from_fn(n, if mrhs { 2 } else { 1 }, |i, q| T::of64(T::of64(col0[i]).to64() * (3.0 - q as f64) + 2.0));
        let flav = format!("subnormal probe {} mrhs={} par={} weighted={}", T::NAME, mrhs, par, weighted);
        let det = |what: &str, dv: f64| json!({"flavour": flav, "what": what, "dev": dv});
        let built = catch_unwind(AssertUnwindSafe(|| build_problem(TableModel::new(table.clone(), &[0]), mrhs, par, &y, w.as_deref(), None)));
        let prob = match built {
            Ok(Ok(p)) => p,
            Ok(Err(_)) => {
                rep.tool_error(format!("cannot build {flav}"));
                continue;
            }
            Err(_) => {
                rep.violation("C08", det("building the problem panicked", 0.0));
                continue;
            }
        };
        let o = observe(prob.as_ref());
        match (&o.cm, &o.r, &o.jm) {
            (Some(c), Some(r), Some(_)) => {
                let mut worst = 0.0f64;
                for q in 0..c.ncols() {
                    worst = nmax(worst, (c[(0, q)].to64() - (3.0 - q as f64)).abs());
                    worst = nmax(worst, (c[(1, q)].to64() - 2.0).abs());
                }
                rep.check("C01", worst <= T::tol(), worst, || det("coefficients are not the optimum (basis function with subnormal values)", worst));
                let rmax = r.iter().fold(0.0f64, |m, v| nmax(m, v.to64().abs()));
                rep.check("C02", rmax <= T::tol() * 10.0, rmax, || det("residuals do not vanish for data the model reproduces", rmax));
            }
            _ => rep.violation("C01", det("coefficients / residuals / Jacobian absent although every value of the model is a finite number (some are subnormal)", 0.0)),
        }
        rep.count("subnormal_probes", 1);
    }
    // the whole weighted basis matrix AND the observations in the subnormal range, threshold zero: the
    // singular values are subnormal numbers (their reciprocals are not representable), the optimum is (3, 2)
    let e = if T::NAME == "f64" { -1040 } else { -135 };
    let tiny = if T::NAME == "f64" { f64::from_bits(1u64 << (e + 1074)) } else { (f32::from_bits(1u32 << (e + 149))) as f64 };
    let n = 6usize;
    let entry = TableEntry {
        a: vec![0],
        phi: DMatrix::from_fn(n, 2, |i, j| T::of64(tiny * if j == 0 { (i + 1) as f64 } else { 1.0 })),
        dphi: vec![DMatrix::from_fn(n, 2, |i, j| T::of64(tiny * if j == 0 { i as f64 } else { 0.0 }))],
    };
    let table = Arc::new(Table { n, m: 2, p: 1, entries: vec![entry] });
    for (mrhs, par) in [(false, false), (true, true)] {
        let y = DMatrix::from_fn(n, if mrhs { 2 } else { 1 }, |i, q| T::of64(tiny * (3.0 * (i + 1) as f64 + 2.0 + q as f64 * (i + 1) as f64)));
        let flav = format!("all-subnormal probe {} mrhs={} par={} scale=2^{}", T::NAME, mrhs, par, e);
        let det = |what: &str, dv: f64| json!({"flavour": flav, "what": what, "dev": dv});
        let built = catch_unwind(AssertUnwindSafe(|| build_problem(TableModel::new(table.clone(), &[0]), mrhs, par, &y, None, Some(T::zero()))));
        let Ok(Ok(prob)) = built else {
            rep.violation("C08", det("building the problem panicked or failed", 0.0));
            continue;
        };
        match prob.coeffs() {
            Some(c) => {
                let mut worst = 0.0f64;
                for q in 0..c.ncols() {
                    worst = nmax(worst, (c[(0, q)].to64() - (3.0 + q as f64)).abs());
                    worst = nmax(worst, (c[(1, q)].to64() - 2.0).abs());
                }
                let tol = if T::NAME == "f64" { 1e-6 } else { 2e-2 };
                rep.check("C01", worst <= tol, worst, || det("coefficients are not the optimum (3, 2): singular values above the (zero) threshold are inverted, also when they are subnormal", worst));
            }
            None => rep.violation("C01", det("coefficients absent although every value is a finite number", 0.0)),
        }
        rep.count("all_subnormal_probes", 1);
    }
}

/// C10: a long history.  K parameter updates (with residual queries only) between two Jacobian queries,
/// for K around the wrap-around points of small counters; the Jacobian afterwards is the one of a fresh
/// problem at the parameters in effect, bit for bit.
fn long_history_probe<T: Sc>(rep: &mut Report) {
    let n = 6usize;
    for par in [false, true] {
        for k in [255usize, 256, 257, 512, 65536] {
            let a0 = [0.3f64, 0.6];
            let Ok(mut prob) = build_problem(RationalModel::<T>::new(n, &a0), false, par, &DMatrix::from_fn(n, 1, |i, _| T::of64(1.0 + (i % 3) as f64)), None, None) else {
                rep.tool_error("long history probe: cannot build".into());
                continue;
            };
            let _ = prob.jacobian();
            let mut last = vec![T::of64(a0[0]), T::of64(a0[1])];
            for step in 0..k {
                last = vec![T::of64(0.3 + 0.01 * ((step * 7 + 1) % 13) as f64), T::of64(0.6 + 0.02 * ((step * 5 + 2) % 11) as f64)];
                prob.set_params(&last);
                if step % 64 == 0 {
                    let _ = prob.residuals();
                }
            }
            let o = observe(prob.as_ref());
            let a_end: Vec<f64> = last.iter().map(|v| v.to64()).collect();
            if let Ok(fresh) = build_problem(RationalModel::<T>::new(n, &a_end), false, par, &DMatrix::from_fn(n, 1, |i, _| T::of64(1.0 + (i % 3) as f64)), None, None) {
                rep.check("C10", obs_bits_eq(&o, &observe(fresh.as_ref())), 0.0, || {
                    json!({"flavour": format!("long history probe {} par={} updates={}", T::NAME, par, k), "what": "state after a long history differs from a fresh problem at the parameters in effect"})
                });
            }
        }
    }
    rep.count("long_history_probes", 1);
}

/// C03 / C11 beyond the enumerated universe: MANY parameters (P = 8 and 10, one per basis function) on
/// short (M < N < 2M) and tall shapes.  Certificates: every Jacobian column orthogonal to the weighted
/// basis functions, 2 J^T r = gradient of |r|^2 by central differences in every parameter; the parallel
/// problem (pools of 2 and 3 threads, fewer than P) and its `into_sequential` form agree with the
/// sequential problem.
fn many_parameters_probe<T: Sc>(rep: &mut Report) {
    if T::NAME != "f64" {
        return;
    }
    let pools: Vec<rayon::ThreadPool> = [2usize, 3, 5, 16].iter().map(|&t| rayon::ThreadPoolBuilder::new().num_threads(t).build().unwrap()).collect();
    for (p, n, weighted, s) in [(8usize, 12usize, false, 1usize), (8, 12, true, 2), (10, 15, true, 1), (8, 40, true, 1), (40, 160, true, 1), (70, 300, false, 2)] {
        let a0: Vec<f64> = (0..p).map(|k| 0.5 + 0.1 * k as f64).collect();
        let model0 = RationalModel::<T>::new(n, &a0);
        let w: Option<Vec<T>> = if weighted { Some((0..n).map(|i| T::of64(0.5 + ((i * 3) % 5) as f64 / 4.0)).collect()) } else { None };
        let y = DMatrix::from_fn(n, s, |i, q| T::of64(1.0 + 0.3 * ((i * 7 + q * 5) % 11) as f64 - 0.1 * i as f64));
        let flav = format!("many parameters probe M=P={} N={} S={} weighted={}", p, n, s, weighted);
        let det = |what: &str, dv: f64| json!({"flavour": flav, "what": what, "dev": dv});
        let mk = |par: bool| build_problem(RationalModel::<T>::new(n, &a0), s >= 2, par, &y, w.as_deref(), None);
        let (Ok(mut seq), Ok(par)) = (mk(false), mk(true)) else {
            rep.tool_error(format!("cannot build {flav}"));
            continue;
        };
        let os = observe(seq.as_ref());
        let (Some(jm), Some(r)) = (os.jm.clone(), os.r.clone()) else {
            rep.violation("C03", det("jacobian absent although the model evaluates", 0.0));
            continue;
        };
        let phi = model0.phi64(&a0);
        {
            // judged only where the decomposition itself is healthy (known finding D4)
            let pw = DMatrix::from_fn(n, p, |i, j| T::of64(w.as_ref().map(|w| w[i].to64()).unwrap_or(1.0) * phi[(i, j)]));
            if !svd_healthy(&pw) {
                rep.count("many_parameters_probe_unhealthy_svd", 1);
                continue;
            }
        }
        let wi = |i: usize| w.as_ref().map(|w| w[i].to64()).unwrap_or(1.0);
        let jn = jm.iter().fold(0.0f64, |a, v| a + v.to64() * v.to64()).sqrt().max(1e-300);
        let mut worst_orth = 0.0f64;
        for k in 0..p {
            for q in 0..s {
                for j in 0..p {
                    let mut dot = 0.0;
                    let mut nrm = 0.0;
                    for i in 0..n {
                        dot += wi(i) * phi[(i, j)] * jm[(q * n + i, k)].to64();
                        nrm += (wi(i) * phi[(i, j)]).powi(2);
                    }
                    worst_orth = nmax(worst_orth, dot.abs() / (nrm.sqrt() * jn));
                }
            }
        }
        rep.check("C03", worst_orth <= 1e-8, worst_orth, || det("a Jacobian column is not orthogonal to the range of the weighted basis matrix", worst_orth));
        let mut worst_g = 0.0f64;
        for k in 0..p {
            let grad: f64 = 2.0 * (0..n * s).map(|i| jm[(i, k)].to64() * r[i].to64()).sum::<f64>();
            let h = 1e-6;
            let mut f_at = |d: f64| -> Option<f64> {
                let mut a: Vec<T> = a0.iter().map(|&v| T::of64(v)).collect();
                a[k] = T::of64(a0[k] + d);
                seq.set_params(&a);
                seq.residuals().map(|rr| rr.iter().map(|v| v.to64() * v.to64()).sum())
            };
            if let (Some(fp), Some(fm)) = (f_at(h), f_at(-h)) {
                let fd = (fp - fm) / (2.0 * h);
                let scale = r.iter().map(|v| v.to64().powi(2)).sum::<f64>().max(1e-300);
                worst_g = nmax(worst_g, (grad - fd).abs() / scale.max(grad.abs()).max(fd.abs()));
            }
        }
        let a_t: Vec<T> = a0.iter().map(|&v| T::of64(v)).collect();
        seq.set_params(&a_t);
        rep.check("C03", worst_g <= 1e-5, worst_g, || det("2 J^T r is not the gradient of the projected objective (central differences in every parameter)", worst_g));
        // parallel in pools smaller than P, and the sequential form of the parallel problem
        let mut par = par;
        for pool in pools.iter() {
            let op = pool.install(|| {
                par.set_params(&a_t);
                observe(par.as_ref())
            });
            let dv = obs_close(&os, &op);
            rep.check("C11", dv <= 1e-9, dv, || det("parallel problem (pool smaller than P) differs from the sequential problem", dv));
            // (under a poisoning allocator: every element handed out is a computed value - C10)
            crate::report::hash_obs(rep, &op.c, &op.r, &op.j);
        }
        let conv = par.into_seq();
        let oc = observe(conv.as_ref());
        let dv = obs_close(&os, &oc);
        rep.check("C11", dv <= 1e-9, dv, || det("into_sequential of the parallel problem differs from the sequential problem", dv));
        rep.check("C03", dv <= 1e-9, dv, || det("Jacobian of the sequential form of a parallel problem differs from the sequential problem's", dv));
        rep.count("many_parameters_probes", 1);
    }
}

/// C03 / C06: a sample with weight ZERO is masked - whatever the model or its derivative is there.  The
/// derivative at the masked sample is huge (finite), the coefficient is huge (finite), their product is
/// not representable: the weight has to reach the derivative before it meets the coefficients.
fn masked_overflow_probe<T: Sc>(rep: &mut Report) {
    let (big_d, big_y) = if T::NAME == "f64" { ((2.0f64).powi(600), (2.0f64).powi(500)) } else { ((2.0f64).powi(80), (2.0f64).powi(60)) };
    let n = 5usize;
    let masked = 2usize;
    let wv = [1.0f64, 2.0, 0.0, 1.0, 0.5];
    let dcol = [1.0f64, 2.0, big_d, -1.0, 3.0];
    let entry = TableEntry {
        a: vec![0],
        phi: DMatrix::from_element(n, 1, T::one()),
        dphi: vec![DMatrix::from_fn(n, 1, |i, _| T::of64(dcol[i]))],
    };
    let table = Arc::new(Table { n, m: 1, p: 1, entries: vec![entry] });
    let w: Vec<T> = wv.iter().map(|&v| T::of64(v)).collect();
    for (mrhs, par) in [(false, false), (true, false), (false, true), (true, true)] {
        let s = if mrhs { 2 } else { 1 };
        let y = DMatrix::from_fn(n, s, |i, q| T::of64(big_y * (1.0 + 0.25 * ((i + q) % 3) as f64)));
        let flav = format!("masked overflow probe {} mrhs={} par={}", T::NAME, mrhs, par);
        let det = |what: &str, dv: f64| json!({"flavour": flav, "what": what, "dev": dv});
        let Ok(prob) = build_problem(TableModel::new(table.clone(), &[0]), mrhs, par, &y, Some(&w), None) else {
            rep.tool_error(format!("cannot build {flav}"));
            continue;
        };
        let o = observe(prob.as_ref());
        let (Some(cm), Some(jm)) = (&o.cm, &o.jm) else {
            rep.violation("C03", det("coefficients or Jacobian absent although every value is finite", 0.0));
            continue;
        };
        // reference: c_q = sum w^2 y / sum w^2;  v = W D c;  J = -(v - u (u.v)) with u = w / |w|
        let wn2: f64 = wv.iter().map(|v| v * v).sum();
        let mut worst = 0.0f64;
        for q in 0..s {
            let c: f64 = (0..n).map(|i| wv[i] * wv[i] * y[(i, q)].to64()).sum::<f64>() / wn2;
            worst = nmax(worst, (cm[(0, q)].to64() - c).abs() / c.abs());
            let v: Vec<f64> = (0..n).map(|i| wv[i] * dcol[i] * c).collect();
            let uv: f64 = (0..n).map(|i| wv[i] * v[i]).sum::<f64>() / wn2;
            let scale = v.iter().fold(0.0f64, |m, x| m.max(x.abs()));
            for i in 0..n {
                let e = -(v[i] - wv[i] * uv);
                worst = nmax(worst, (jm[(q * n + i, 0)].to64() - e).abs() / scale);
            }
        }
        rep.check("C03", worst <= T::tol() * 10.0, worst, || det(&format!("Jacobian differs from -(I-P) W D C where sample {masked} has weight zero and a huge derivative"), worst));
        rep.check("C06", worst <= T::tol() * 10.0, worst, || det("a sample with weight zero influences the Jacobian (its derivative is huge)", worst));
        rep.count("masked_overflow_probes", 1);
    }
}

/// the probes beyond the enumerated universe (also available on their own: subcommand `probes`)
pub fn run_probes(total: &mut Report) {
    signed_zero_probe::<f64>(total);
    signed_zero_probe::<f32>(total);
    nan_parameter_probe::<f64>(total);
    nan_parameter_probe::<f32>(total);
    subnormal_probe::<f64>(total);
    subnormal_probe::<f32>(total);
    masked_overflow_probe::<f64>(total);
    masked_overflow_probe::<f32>(total);
    long_history_probe::<f64>(total);
    long_history_probe::<f32>(total);
    many_parameters_probe::<f64>(total);
    many_functions_probe::<f64>(total);
    many_columns_probe::<f64>(total);
    many_columns_probe::<f32>(total);
}
pub fn probes() -> Report {
    let mut rep = Report::new();
    run_probes(&mut rep);
    rep
}

pub fn run(path: &str, opts: &Opts) -> Report {
    let lines = crate::export::read_tagged(path, "VPX");
    let pools = Pools::new();
    let parsed: Vec<Line> = lines
        .iter()
        .map(|l| serde_json::from_str::<Line>(l).unwrap_or_else(|e| panic!("malformed export line: {e}: {}", &l[..l.len().min(200)])))
        .collect();
    let reports: Vec<Report> = parsed
        .par_iter()
        .enumerate()
        .map(|(idx, line)| {
            let mut rep = Report::new();
            run_inst::<f64>(line, idx, &pools, opts, &mut rep);
            if !opts.only_f64 {
                run_inst::<f32>(line, idx, &pools, opts, &mut rep);
            }
            if idx % 997 == 0 {
                rep.sample(json!({"fam": line.fam.name, "M": line.fam.m, "P": line.fam.p, "x": line.x, "w": line.w, "Y": line.y,
                                  "first_point": {"a": line.pts[0].a, "d": line.pts[0].d, "cn": line.pts[0].cn, "rn": line.pts[0].rn}}));
            }
            rep
        })
        .collect();
    let mut total = Report::new();
    signed_zero_probe::<f64>(&mut total);
    run_probes(&mut total);
    total.count("export_lines", parsed.len() as u64);
    for r in reports {
        total.merge(r);
    }
    total
}
