//! Uniform, object safe view of the four LevMarProblem flavours (single/multiple right hand
//! sides x sequential/parallel) so that replay logic is written once.
use crate::sc::Sc;
use levenberg_marquardt::{LeastSquaresProblem, LevenbergMarquardt, MinimizationReport, TerminationReason};
use nalgebra::{DMatrix, DVector};
use std::panic::{catch_unwind, AssertUnwindSafe};
use varpro::prelude::*;
use varpro::solvers::levmar::{FitResult, LevMarProblem, LevMarProblemBuilder, LevMarSolver};

#[derive(Clone, Debug)]
pub struct LmCfg {
    pub patience: usize,
    pub stepbound: f64,
    /// None = default
    pub ftol: Option<f64>,
    pub xtol: Option<f64>,
    pub gtol: Option<f64>,
    pub scale_diag: bool,
}
impl LmCfg {
    /// nothing configured: the library's own `LevMarSolver::default()` is used
    pub fn is_default(&self) -> bool {
        self.patience == 100 && self.stepbound == 100.0 && self.ftol.is_none() && self.xtol.is_none() && self.gtol.is_none() && self.scale_diag
    }
}
impl Default for LmCfg {
    fn default() -> Self {
        Self {
            patience: 100,
            stepbound: 100.0,
            ftol: None,
            xtol: None,
            gtol: None,
            scale_diag: true,
        }
    }
}
impl LmCfg {
    pub fn solver<T: Sc>(&self) -> LevenbergMarquardt<T> {
        let mut s = LevenbergMarquardt::<T>::new()
            .with_patience(self.patience)
            .with_stepbound(T::of64(self.stepbound))
            .with_scale_diag(self.scale_diag);
        if let Some(v) = self.ftol {
            s = s.with_ftol(T::of64(v));
        }
        if let Some(v) = self.xtol {
            s = s.with_xtol(T::of64(v));
        }
        if let Some(v) = self.gtol {
            s = s.with_gtol(T::of64(v));
        }
        s
    }
}

/// what a FitResult exposes
#[derive(Clone, Debug)]
pub struct Finish<T: Sc> {
    pub params: Vec<T>,
    pub coeffs: Option<DMatrix<T>>,
    pub best_fit: Option<DMatrix<T>>,
    pub residuals: Option<Vec<T>>,
}

pub struct FitOut<T: Sc> {
    /// fit returned Ok
    pub ok: bool,
    pub was_successful: bool,
    pub termination: String,
    pub nfev: usize,
    pub objective: T,
    pub fin: Finish<T>,
    pub problem: Box<dyn Prob<T>>,
}

#[derive(Clone, Debug)]
pub struct StatsData<T: Sc> {
    pub cov: DMatrix<T>,
    pub corr: DMatrix<T>,
    pub corr_deprecated: DMatrix<T>,
    pub chi2: T,
    pub rse: T,
    pub wres: Vec<T>,
    pub lin_var: Vec<T>,
    pub nonlin_var: Vec<T>,
    /// (probability, radius) for the requested valid probabilities
    pub bands: Vec<(f64, Vec<T>)>,
    /// for each requested invalid probability: did the call panic?
    pub bad_p_panicked: Vec<(f64, bool)>,
    /// probabilities in (0,1) next to zero: (p, band or None when the call panicked)
    pub tiny_bands: Vec<(f64, Option<Vec<T>>)>,
}

pub struct StatsOut<T: Sc> {
    pub fit: FitOut<T>,
    pub stats: Option<StatsData<T>>,
}

pub trait Prob<T: Sc>: Send + Sync {
    fn set_params(&mut self, a: &[T]);
    fn params(&self) -> Vec<T>;
    fn residuals(&self) -> Option<Vec<T>>;
    fn jacobian(&self) -> Option<DMatrix<T>>;
    fn coeffs(&self) -> Option<DMatrix<T>>;
    fn weighted_data(&self) -> DMatrix<T>;
    fn is_mrhs(&self) -> bool;
    fn is_par(&self) -> bool;
    fn has_diag_weights(&self) -> bool;
    fn debug_string(&self) -> String;
    /// into_sequential, then everything a FitResult exposes
    fn finish(self: Box<Self>) -> Finish<T>;
    fn into_seq(self: Box<Self>) -> Box<dyn Prob<T>>;
    /// LevMarProblem::into_parallel (which at this commit yields a sequential problem type)
    fn into_par(self: Box<Self>) -> Box<dyn Prob<T>>;
    fn fit(self: Box<Self>, cfg: &LmCfg) -> FitOut<T>;
    /// only for single right hand side problems; None otherwise
    fn fit_stats(self: Box<Self>, cfg: &LmCfg, ps: &[f64], bad_ps: &[f64]) -> Option<StatsOut<T>>;
    /// drive the optimizer directly through a proxy that observes every call of the
    /// LeastSquaresProblem interface (C02: optimizer driven histories)
    fn minimize_observed(self: Box<Self>, cfg: &LmCfg, obs: &mut dyn FnMut(ProxyEvent<T>)) -> (Box<dyn Prob<T>>, String, usize, T);
}

#[derive(Clone, Debug)]
pub enum ProxyEvent<T: Sc> {
    SetParams(Vec<T>),
    Residuals(Option<Vec<T>>, Vec<T>),
    Jacobian(Option<DMatrix<T>>, Vec<T>),
}

fn term_string(t: &TerminationReason) -> String {
    match t {
        TerminationReason::User(_) => "User".into(),
        TerminationReason::Numerical(_) => "Numerical".into(),
        TerminationReason::ResidualsZero => "ResidualsZero".into(),
        TerminationReason::Orthogonal => "Orthogonal".into(),
        TerminationReason::Converged { .. } => "Converged".into(),
        TerminationReason::NoImprovementPossible(_) => "NoImprovementPossible".into(),
        TerminationReason::LostPatience => "LostPatience".into(),
        TerminationReason::NoParameters => "NoParameters".into(),
        TerminationReason::NoResiduals => "NoResiduals".into(),
        TerminationReason::WrongDimensions(_) => "WrongDimensions".into(),
    }
}

fn dummy_report<T: Sc>() -> MinimizationReport<T> {
    MinimizationReport {
        termination: TerminationReason::ResidualsZero,
        number_of_evaluations: 0,
        objective_function: T::zero(),
    }
}

/// proxy problem that forwards to the real one and reports every call
struct Proxy<'a, P, T: Sc> {
    inner: P,
    obs: std::cell::RefCell<&'a mut dyn FnMut(ProxyEvent<T>)>,
}
impl<'a, P, T> LeastSquaresProblem<T, nalgebra::Dyn, nalgebra::Dyn> for Proxy<'a, P, T>
where
    T: Sc,
    P: LeastSquaresProblem<
        T,
        nalgebra::Dyn,
        nalgebra::Dyn,
        ResidualStorage = nalgebra::storage::Owned<T, nalgebra::Dyn>,
        JacobianStorage = nalgebra::storage::Owned<T, nalgebra::Dyn, nalgebra::Dyn>,
        ParameterStorage = nalgebra::storage::Owned<T, nalgebra::Dyn>,
    >,
{
    type ResidualStorage = nalgebra::storage::Owned<T, nalgebra::Dyn>;
    type JacobianStorage = nalgebra::storage::Owned<T, nalgebra::Dyn, nalgebra::Dyn>;
    type ParameterStorage = nalgebra::storage::Owned<T, nalgebra::Dyn>;
    fn set_params(&mut self, x: &DVector<T>) {
        self.inner.set_params(x);
        (self.obs.borrow_mut())(ProxyEvent::SetParams(x.as_slice().to_vec()));
    }
    fn params(&self) -> DVector<T> {
        self.inner.params()
    }
    fn residuals(&self) -> Option<DVector<T>> {
        let r = self.inner.residuals();
        let p = self.inner.params().as_slice().to_vec();
        (self.obs.borrow_mut())(ProxyEvent::Residuals(r.as_ref().map(|v| v.as_slice().to_vec()), p));
        r
    }
    fn jacobian(&self) -> Option<DMatrix<T>> {
        let j = self.inner.jacobian();
        let p = self.inner.params().as_slice().to_vec();
        (self.obs.borrow_mut())(ProxyEvent::Jacobian(j.clone(), p));
        j
    }
}

macro_rules! impl_prob {
    ($mrhs:tt, $par:tt) => {
        impl<M, T> Prob<T> for LevMarProblem<M, $mrhs, $par>
        where
            T: Sc,
            M: SeparableNonlinearModel<ScalarType = T> + Send + Sync + 'static,
        {
            fn set_params(&mut self, a: &[T]) {
                LeastSquaresProblem::set_params(self, &DVector::from_column_slice(a));
            }
            fn params(&self) -> Vec<T> {
                LeastSquaresProblem::params(self).as_slice().to_vec()
            }
            fn residuals(&self) -> Option<Vec<T>> {
                LeastSquaresProblem::residuals(self).map(|v| v.as_slice().to_vec())
            }
            fn jacobian(&self) -> Option<DMatrix<T>> {
                LeastSquaresProblem::jacobian(self)
            }
            fn coeffs(&self) -> Option<DMatrix<T>> {
                self.linear_coefficients()
                    .map(|c| DMatrix::from_fn(c.nrows(), c.ncols(), |i, j| c[(i, j)]))
            }
            fn weighted_data(&self) -> DMatrix<T> {
                let c = LevMarProblem::<M, $mrhs, $par>::weighted_data(self);
                DMatrix::from_fn(c.nrows(), c.ncols(), |i, j| c[(i, j)])
            }
            fn is_mrhs(&self) -> bool {
                $mrhs
            }
            fn is_par(&self) -> bool {
                $par
            }
            fn has_diag_weights(&self) -> bool {
                matches!(self.weights(), varpro::util::Weights::Diagonal(_))
            }
            fn debug_string(&self) -> String {
                format!("{:?}", self)
            }
            fn finish(self: Box<Self>) -> Finish<T> {
                let seq = (*self).into_sequential();
                let residuals = LeastSquaresProblem::residuals(&seq).map(|v| v.as_slice().to_vec());
                let fr = FitResult {
                    problem: seq,
                    minimization_report: dummy_report::<T>(),
                };
                finish_of(&fr, residuals)
            }
            fn into_seq(self: Box<Self>) -> Box<dyn Prob<T>> {
                Box::new((*self).into_sequential())
            }
            fn into_par(self: Box<Self>) -> Box<dyn Prob<T>> {
                Box::new((*self).into_parallel())
            }
            fn fit(self: Box<Self>, cfg: &LmCfg) -> FitOut<T> {
                let solver = if cfg.is_default() {
                    LevMarSolver::<M, $mrhs>::default()
                } else {
                    LevMarSolver::<M, $mrhs>::with_solver(cfg.solver::<T>())
                };
                let (ok, fr) = match solver.fit(*self) {
                    Ok(fr) => (true, fr),
                    Err(fr) => (false, fr),
                };
                fit_out(ok, fr)
            }
            fn fit_stats(self: Box<Self>, cfg: &LmCfg, ps: &[f64], bad_ps: &[f64]) -> Option<StatsOut<T>> {
                fit_stats_impl!($mrhs, self, cfg, ps, bad_ps, M, T)
            }
            fn minimize_observed(
                self: Box<Self>,
                cfg: &LmCfg,
                obs: &mut dyn FnMut(ProxyEvent<T>),
            ) -> (Box<dyn Prob<T>>, String, usize, T) {
                let proxy = Proxy {
                    inner: *self,
                    obs: std::cell::RefCell::new(obs),
                };
                let (proxy, report) = cfg.solver::<T>().minimize(proxy);
                (
                    Box::new(proxy.inner),
                    term_string(&report.termination),
                    report.number_of_evaluations,
                    report.objective_function,
                )
            }
        }
    };
}

macro_rules! fit_stats_impl {
    (true, $self:ident, $cfg:ident, $ps:ident, $bad:ident, $M:ident, $T:ident) => {{
        let _ = ($self, $cfg, $ps, $bad);
        None
    }};
    (false, $self:ident, $cfg:ident, $ps:ident, $bad:ident, $M:ident, $T:ident) => {{
        let solver = if $cfg.is_default() {
            LevMarSolver::<$M, false>::default()
        } else {
            LevMarSolver::<$M, false>::with_solver($cfg.solver::<$T>())
        };
        match solver.fit_with_statistics(*$self) {
            Ok((fr, st)) => {
                let cov = st.covariance_matrix().clone();
                let corr = st.calculate_correlation_matrix();
                #[allow(deprecated)]
                let corr_deprecated = st.correlation_matrix();
                let mut bands = Vec::new();
                for &p in $ps.iter() {
                    let r = st.confidence_band_radius(<$T as Sc>::of64(p));
                    bands.push((p, r.as_slice().to_vec()));
                }
                let mut bad_p_panicked = Vec::new();
                for &p in $bad.iter() {
                    let r = catch_unwind(AssertUnwindSafe(|| st.confidence_band_radius(<$T as Sc>::of64(p))));
                    bad_p_panicked.push((p, r.is_err()));
                }
                let mut tiny_bands = Vec::new();
                if !$bad.is_empty() {
                    // (valid probabilities whose quantile (1+p)/2 rounds to one half)
                    let tiny: [f64; 3] = [f64::from_bits(0x3C30_0000_0000_0000), f64::from_bits(0x3810_0000_0000_0000), if <$T as Sc>::NAME == "f64" { f64::from_bits(1) } else { f32::from_bits(1) as f64 }];
                    for &p in tiny.iter() {
                        let r = catch_unwind(AssertUnwindSafe(|| st.confidence_band_radius(<$T as Sc>::of64(p))));
                        tiny_bands.push((p, r.ok().map(|v| v.as_slice().to_vec())));
                    }
                }
                let data = StatsData {
                    cov,
                    corr,
                    corr_deprecated,
                    chi2: st.reduced_chi2(),
                    rse: st.regression_standard_error(),
                    wres: st.weighted_residuals().as_slice().to_vec(),
                    lin_var: st.linear_coefficients_variance().as_slice().to_vec(),
                    nonlin_var: st.nonlinear_parameters_variance().as_slice().to_vec(),
                    bands,
                    bad_p_panicked,
                    tiny_bands,
                };
                Some(StatsOut {
                    fit: fit_out(true, fr),
                    stats: Some(data),
                })
            }
            Err(fr) => Some(StatsOut {
                fit: fit_out(false, fr),
                stats: None,
            }),
        }
    }};
}

trait FinishOf<T: Sc> {
    fn fin(&self, residuals: Option<Vec<T>>) -> Finish<T>;
    /// without best_fit (which evaluates the model once more)
    fn fin_light(&self, residuals: Option<Vec<T>>) -> Finish<T>;
}
impl<M, T> FinishOf<T> for FitResult<M, false>
where
    T: Sc,
    M: SeparableNonlinearModel<ScalarType = T>,
{
    fn fin(&self, residuals: Option<Vec<T>>) -> Finish<T> {
        Finish {
            params: self.nonlinear_parameters().as_slice().to_vec(),
            coeffs: self
                .linear_coefficients()
                .map(|c| DMatrix::from_fn(c.nrows(), c.ncols(), |i, j| c[(i, j)])),
            best_fit: self
                .best_fit()
                .map(|c| DMatrix::from_fn(c.nrows(), c.ncols(), |i, j| c[(i, j)])),
            residuals,
        }
    }
    fn fin_light(&self, residuals: Option<Vec<T>>) -> Finish<T> {
        Finish {
            params: self.nonlinear_parameters().as_slice().to_vec(),
            coeffs: self
                .linear_coefficients()
                .map(|c| DMatrix::from_fn(c.nrows(), c.ncols(), |i, j| c[(i, j)])),
            best_fit: None,
            residuals,
        }
    }
}
impl<M, T> FinishOf<T> for FitResult<M, true>
where
    T: Sc,
    M: SeparableNonlinearModel<ScalarType = T>,
{
    fn fin(&self, residuals: Option<Vec<T>>) -> Finish<T> {
        Finish {
            params: self.nonlinear_parameters().as_slice().to_vec(),
            coeffs: self
                .linear_coefficients()
                .map(|c| DMatrix::from_fn(c.nrows(), c.ncols(), |i, j| c[(i, j)])),
            best_fit: self
                .best_fit()
                .map(|c| DMatrix::from_fn(c.nrows(), c.ncols(), |i, j| c[(i, j)])),
            residuals,
        }
    }
    fn fin_light(&self, residuals: Option<Vec<T>>) -> Finish<T> {
        Finish {
            params: self.nonlinear_parameters().as_slice().to_vec(),
            coeffs: self
                .linear_coefficients()
                .map(|c| DMatrix::from_fn(c.nrows(), c.ncols(), |i, j| c[(i, j)])),
            best_fit: None,
            residuals,
        }
    }
}
fn finish_of<T: Sc, F: FinishOf<T>>(fr: &F, residuals: Option<Vec<T>>) -> Finish<T> {
    fr.fin(residuals)
}

fn fit_out<M, T, const MRHS: bool>(ok: bool, fr: FitResult<M, MRHS>) -> FitOut<T>
where
    T: Sc,
    M: SeparableNonlinearModel<ScalarType = T> + Send + Sync + 'static,
    FitResult<M, MRHS>: FinishOf<T>,
    LevMarProblem<M, MRHS, false>: Prob<T>,
{
    let residuals = LeastSquaresProblem::residuals(&fr.problem).map(|v| v.as_slice().to_vec());
    // best_fit is deliberately not computed here: it would evaluate the model once more
    let fin = fr.fin_light(residuals);
    FitOut {
        ok,
        was_successful: fr.was_successful(),
        termination: term_string(&fr.minimization_report.termination),
        nfev: fr.minimization_report.number_of_evaluations,
        objective: fr.minimization_report.objective_function,
        fin,
        problem: Box::new(fr.problem),
    }
}

impl_prob!(false, false);
impl_prob!(true, false);
impl_prob!(false, true);
impl_prob!(true, true);

// ------------------------------------------------------------------------------------------
// construction
// ------------------------------------------------------------------------------------------
#[derive(Clone, Debug, PartialEq)]
pub enum BuildErr {
    YDataMissing,
    InvalidLengthOfData,
    ZeroLengthVector,
    InvalidParameterCount,
    InvalidLengthOfWeights,
}
/// one builder call
#[derive(Clone, Debug)]
pub enum BCall<T: Sc> {
    Observations(DMatrix<T>),
    Weights(Vec<T>),
    Epsilon(T),
}

fn map_err<E: std::fmt::Debug>(e: E) -> BuildErr {
    let s = format!("{:?}", e);
    if s.starts_with("YDataMissing") {
        BuildErr::YDataMissing
    } else if s.starts_with("InvalidLengthOfData") {
        BuildErr::InvalidLengthOfData
    } else if s.starts_with("ZeroLengthVector") {
        BuildErr::ZeroLengthVector
    } else if s.starts_with("InvalidParameterCount") {
        BuildErr::InvalidParameterCount
    } else if s.starts_with("InvalidLengthOfWeights") {
        BuildErr::InvalidLengthOfWeights
    } else {
        panic!("unknown builder error {s}")
    }
}

/// build a problem through the real builder with an arbitrary call sequence.
/// For single right hand side constructors `Observations` uses column 0 of the matrix
/// (a matrix with zero columns yields an empty vector).
pub fn build_with_calls<M, T>(model: M, mrhs: bool, par: bool, calls: &[BCall<T>]) -> Result<Box<dyn Prob<T>>, BuildErr>
where
    T: Sc,
    M: SeparableNonlinearModel<ScalarType = T> + Send + Sync + 'static,
{
    macro_rules! go {
        ($ctor:ident, $mr:tt) => {{
            let mut b = LevMarProblemBuilder::$ctor(model);
            for c in calls {
                b = match c {
                    BCall::Observations(y) => go!(@obs $mr, b, y),
                    BCall::Weights(w) => b.weights(DVector::from_column_slice(w)),
                    BCall::Epsilon(e) => b.epsilon(*e),
                };
            }
            match b.build() {
                Ok(p) => Ok(Box::new(p) as Box<dyn Prob<T>>),
                Err(e) => Err(map_err(e)),
            }
        }};
        (@obs true, $b:ident, $y:ident) => {
            $b.observations($y.clone())
        };
        (@obs false, $b:ident, $y:ident) => {
            $b.observations(if $y.ncols() == 0 {
                DVector::zeros(0)
            } else {
                $y.column(0).into_owned()
            })
        };
    }
    match (mrhs, par) {
        (false, false) => go!(new, false),
        (true, false) => go!(mrhs, true),
        (false, true) => go!(new_parallel, false),
        (true, true) => go!(mrhs_parallel, true),
    }
}

/// the ordinary way: observations, optional weights, optional epsilon
pub fn build_problem<M, T>(
    model: M,
    mrhs: bool,
    par: bool,
    y: &DMatrix<T>,
    w: Option<&[T]>,
    eps: Option<T>,
) -> Result<Box<dyn Prob<T>>, BuildErr>
where
    T: Sc,
    M: SeparableNonlinearModel<ScalarType = T> + Send + Sync + 'static,
{
    let mut calls = vec![BCall::Observations(y.clone())];
    if let Some(w) = w {
        calls.push(BCall::Weights(w.to_vec()));
    }
    if let Some(e) = eps {
        calls.push(BCall::Epsilon(e));
    }
    build_with_calls(model, mrhs, par, &calls)
}
