//! C11: real parallel jacobian() calls recorded (begin/end of every derivative call with the
//! executing thread) under seeded delays that permute completion order, in rayon pools of
//! 1..16 threads, with and without a failing derivative; validated by TLC against
//! spec/Trace_VPParJac.tla.  One trace file per number of parameters P.
use crate::models::*;
use crate::prob::*;
use crate::report::Report;
use crate::sc::*;
use nalgebra::{DMatrix, DVector, Dyn, OMatrix, OVector};
use rand::rngs::StdRng;
use rand::{Rng, SeedableRng};
use serde_json::{json, Value};
use std::io::Write;
use varpro::prelude::*;

#[derive(Clone)]
struct ParModel<T: Sc> {
    n: usize,
    m: usize,
    p: usize,
    params: DVector<T>,
}
impl<T: Sc> SeparableNonlinearModel for ParModel<T> {
    type ScalarType = T;
    type Error = MErr;
    fn parameter_count(&self) -> usize {
        self.p
    }
    fn base_function_count(&self) -> usize {
        self.m
    }
    fn output_len(&self) -> usize {
        self.n
    }
    fn set_params(&mut self, parameters: OVector<T, Dyn>) -> Result<(), MErr> {
        self.params = parameters;
        Ok(())
    }
    fn params(&self) -> OVector<T, Dyn> {
        self.params.clone()
    }
    fn eval(&self) -> Result<OMatrix<T, Dyn, Dyn>, MErr> {
        let a = self.params[0].to64();
        Ok(DMatrix::from_fn(self.n, self.m, |i, j| T::of64(((i * 3 + j * 5) % 7) as f64 - 3.0 + a * (i as f64 + 1.0) * (j as f64 + 1.0) * 0.25 + if i == j { 2.0 } else { 0.0 })))
    }
    fn eval_partial_deriv(&self, k: usize) -> Result<OMatrix<T, Dyn, Dyn>, MErr> {
        // every derivative matrix is different, so that the origin of a Jacobian column is visible
        Ok(DMatrix::from_fn(self.n, self.m, |i, j| T::of64(((i + 1) * (k + 2) + j * (k + 1)) as f64 * 0.5 - k as f64)))
    }
}

fn run_p<T: Sc>(p: usize, count: usize, rng: &mut StdRng, rep: &mut Report) -> Vec<Value> {
    let pools = [1usize, 2, 3, 4, 8, 16];
    let mut events = Vec::new();
    for it in 0..count {
        let n = 5 + it % 3;
        let m = 2 + it % 2;
        let s = 1 + it % 3;
        let model = ParModel::<T> {
            n,
            m,
            p,
            params: DVector::from_fn(p, |i, _| T::of64(0.5 + i as f64)),
        };
        let y = DMatrix::from_fn(n, s, |i, c| T::of64(((i * 7 + c * 3) % 5) as f64 - 1.5));
        let w: Option<Vec<T>> = if it % 2 == 0 { None } else { Some((0..n).map(|i| T::of64(1.0 + (i % 3) as f64)).collect()) };
        let log = new_log();
        {
            let mut l = log.lock().unwrap();
            l.begins = true;
            l.delays_us = (0..p).map(|_| rng.gen_range(0..400)).collect();
        }
        let seq = build_problem(model.clone(), s >= 2, false, &y, w.as_deref(), None).expect("seq build");
        let par = build_problem(Rec::new(model.clone(), log.clone()), s >= 2, true, &y, w.as_deref(), None).expect("par build");
        let jseq = seq.jacobian().expect("sequential jacobian");
        // fault plan: fail one derivative call of the jacobian (transient) every third iteration
        let calls_before = log.lock().unwrap().calls;
        let fail = it % 3 == 2;
        if fail {
            let mut l = log.lock().unwrap();
            l.fail_at = Some(calls_before + rng.gen_range(0..p));
            l.persistent = false;
        }
        let ev_before = log.lock().unwrap().events.len();
        let threads = pools[it % pools.len()];
        let pool = crate::pools::pool(threads);
        let jpar = pool.install(|| par.jacobian());
        let l = log.lock().unwrap();
        events.push(json!({"ev": "JacStart", "P": p, "T": threads}));
        let mut tids: Vec<u64> = Vec::new();
        let mut any_fail = false;
        for e in l.events[ev_before..].iter() {
            if let Call::Deriv(k) = e.call {
                let t = match tids.iter().position(|x| *x == e.tid) {
                    Some(i) => i + 1,
                    None => {
                        tids.push(e.tid);
                        tids.len()
                    }
                };
                if e.begin {
                    events.push(json!({"ev": "DBegin", "k": k, "tid": t}));
                } else {
                    any_fail |= !e.ok;
                    events.push(json!({"ev": "DEnd", "k": k, "tid": t, "ok": e.ok}));
                }
            }
        }
        rep.count(&format!("threads_used_{}", tids.len()), 1);
        // where does every returned column come from?
        let cols: Vec<i64> = match &jpar {
            None => vec![],
            Some(j) => (0..p)
                .map(|k| {
                    (0..p)
                        .find(|&q| j.nrows() == jseq.nrows() && (0..j.nrows()).all(|r| devf(j[(r, k)].to64(), jseq[(r, q)].to64()) <= 1e-12))
                        .map(|q| q as i64)
                        .unwrap_or(-2)
                })
                .collect(),
        };
        events.push(json!({"ev": "JacEnd", "present": jpar.is_some(), "cols": cols}));
        rep.count("jacobian_calls", 1);
        if any_fail {
            rep.count("jacobian_calls_with_failing_derivative", 1);
        }
        if it % 97 == 0 {
            rep.sample(json!({"P": p, "threads": threads, "events": events.iter().rev().take(2 * p + 2).rev().collect::<Vec<_>>()}));
        }
    }
    events
}

pub fn run(out_prefix: &str, count: usize) -> Report {
    let mut rep = Report::new();
    let seed: u64 = std::env::var("VERIF_SEED").ok().and_then(|s| s.parse().ok()).unwrap_or(1);
    let mut rng = StdRng::seed_from_u64(seed.wrapping_mul(31337));
    for p in 1..=6usize {
        let mut ev = run_p::<f64>(p, count, &mut rng, &mut rep);
        ev.extend(run_p::<f32>(p, count / 3, &mut rng, &mut rep));
        let path = format!("{}_P{}.ndjson", out_prefix, p);
        let mut f = std::io::BufWriter::new(std::fs::File::create(&path).expect("create"));
        for e in &ev {
            writeln!(f, "{}", serde_json::to_string(e).unwrap()).unwrap();
        }
        rep.count("events_written", ev.len() as u64);
    }
    rep
}
