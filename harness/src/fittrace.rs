//! Recording real executions (build / caller driven updates / fit / fit_with_statistics /
//! best_fit) as event traces for validation against spec/Trace_VPFit.tla.
//! No hook in varpro is needed: the model is supplied by the caller, so every model call is
//! recorded by the `Rec` wrapper (which can also make the k-th call fail); public calls are
//! recorded around the call.  Post-processing adds only facts: provenance ids ("aids") of
//! parameter vectors, owners of exposed residuals (A2), integer ranks of objective values.
use crate::expmodels::*;
use crate::models::*;
use crate::prob::*;
use crate::report::Report;
use crate::sc::*;
use nalgebra::DMatrix;
use rand::rngs::StdRng;
use rand::{Rng, SeedableRng};
use serde_json::{json, Value};
use std::io::Write;
use std::panic::{catch_unwind, AssertUnwindSafe};

#[derive(Clone, Debug)]
pub enum COp<T: Sc> {
    Set(Vec<T>),
    Jac,
}

#[derive(Clone, Debug)]
pub struct Cert<T: Sc> {
    pub truth: Vec<T>,
    pub noiseless: bool,
}

#[derive(Clone, Debug)]
pub struct RunSpec<T: Sc> {
    pub label: String,
    pub fam: String,
    pub built: bool,
    pub x: Vec<T>,
    pub y: DMatrix<T>,
    pub w: Option<Vec<T>>,
    pub start: Vec<T>,
    pub mrhs: bool,
    pub par: bool,
    pub cfg: LmCfg,
    pub with_stats: bool,
    pub caller_ops: Vec<COp<T>>,
    pub fault: Option<(usize, bool)>,
    pub do_fit: bool,
    pub cert: Option<Cert<T>>,
    pub threads: usize,
    /// query jacobian() of the problem every fit hands back
    pub post_jac: bool,
    /// fit a second time, starting from the problem the first fit handed back
    pub refit: bool,
    /// singular value threshold supplied by the caller (None: the default)
    pub eps: Option<T>,
    /// builder call order: weights before observations
    pub weights_first: bool,
}

pub fn fam_shape(fam: &str) -> (usize, usize) {
    if poly_is_family(fam) {
        poly_shape(fam)
    } else {
        exp_shape(fam)
    }
}

/// build the problem of a run with initial parameters `start`; with a log the model is recorded
pub fn make_problem<T: Sc>(rs: &RunSpec<T>, start: &[T], log: Option<SharedLog>) -> Result<Box<dyn Prob<T>>, String> {
    let w = rs.w.as_deref();
    macro_rules! fin {
        ($model:expr) => {{
            let m = $model;
            // the builder calls in the order the run asks for (the result must not depend on it)
            let mut calls = Vec::new();
            if let (true, Some(w)) = (rs.weights_first, w) {
                calls.push(BCall::Weights(w.to_vec()));
            }
            if let Some(e) = rs.eps {
                calls.push(BCall::Epsilon(e));
            }
            calls.push(BCall::Observations(rs.y.clone()));
            if let (false, Some(w)) = (rs.weights_first, w) {
                calls.push(BCall::Weights(w.to_vec()));
            }
            match log {
                Some(l) => build_with_calls(Rec::new(m, l), rs.mrhs, rs.par, &calls),
                None => build_with_calls(m, rs.mrhs, rs.par, &calls),
            }
            .map_err(|e| format!("{e:?}"))
        }};
    }
    if poly_is_family(&rs.fam) {
        if rs.built {
            fin!(poly_model_built(&rs.fam, &rs.x, start, false).map_err(|e| format!("{e:?}"))?)
        } else {
            fin!(PolyModel::new(&rs.fam, &rs.x, start))
        }
    } else if rs.built {
        fin!(exp_model_built(&rs.fam, &rs.x, start).map_err(|e| format!("{e:?}"))?)
    } else {
        fin!(ExpModel::new(&rs.fam, &rs.x, start))
    }
}

/// what a problem exposes at a marker
#[derive(Clone, Debug)]
struct Snap<T: Sc> {
    params: Vec<T>,
    present: bool,
    resid: Option<Vec<T>>,
}
fn snap<T: Sc>(p: &dyn Prob<T>) -> Snap<T> {
    Snap {
        params: p.params(),
        present: p.coeffs().is_some(),
        resid: p.residuals(),
    }
}

enum Item<T: Sc> {
    Model(Event),
    Marker(String, Value, Option<Snap<T>>),
}

fn bits_of<T: Sc>(v: &[T]) -> Vec<u64> {
    v.iter().map(|x| x.bits()).collect()
}

fn close<T: Sc>(a: &[T], b: &[T]) -> bool {
    let tol = if T::NAME == "f64" { 1e-12 } else { 1e-5 };
    a.len() == b.len()
        && a.iter().zip(b.iter()).all(|(x, y)| {
            let (x, y) = (x.to64(), y.to64());
            (x.is_nan() && y.is_nan()) || x == y || (x - y).abs() <= tol * x.abs().max(y.abs()).max(1e-300)
        })
}

/// jacobian() of a problem and whether it agrees with the Jacobian of a freshly built (fault free,
/// unrecorded) problem at the same parameters; absence is judged by the specification
fn jac_query<T: Sc>(rs: &RunSpec<T>, prob: &dyn Prob<T>) -> (bool, bool, bool) {
    let j = prob.jacobian();
    // exactly zero coefficients: every Jacobian column -(I-P) W D_k C vanishes whatever the derivatives are
    let czero = prob.coeffs().map(|c| c.iter().all(|v| v.to64() == 0.0)).unwrap_or(false);
    let params = prob.params();
    let present = j.is_some();
    let fresh = match j {
        None => true,
        Some(j) => match catch_unwind(AssertUnwindSafe(|| make_problem(rs, &params, None).ok().and_then(|p| p.jacobian()))) {
            Ok(Some(f)) => {
                let tol = if T::NAME == "f64" { 1e-10 } else { 1e-4 };
                let scale = f.iter().fold(0.0f64, |m, v| m.max(v.to64().abs())).max(1e-300);
                j.shape() == f.shape()
                    && j.iter().zip(f.iter()).all(|(a, b)| {
                        let (a, b) = (a.to64(), b.to64());
                        (a.is_nan() && b.is_nan()) || a == b || (a - b).abs() <= tol * scale
                    })
            }
            _ => true,
        },
    };
    (present, fresh, czero)
}

pub struct RunOut {
    pub differs_from_clean: bool,
    pub events: Vec<Value>,
    pub termination: String,
    pub calls: usize,
    pub panicked: bool,
    pub fit_ok: bool,
}

/// execute one run and return its event list
pub fn record_run<T: Sc>(rs: &RunSpec<T>) -> RunOut {
    let (m, p) = fam_shape(&rs.fam);
    let n = rs.x.len();
    let log = new_log();
    {
        let mut l = log.lock().unwrap();
        l.fail_at = rs.fault.map(|f| f.0);
        l.persistent = rs.fault.map(|f| f.1).unwrap_or(false);
    }
    let mut items: Vec<Item<T>> = Vec::new();
    let mut taken = 0usize;
    // move the model events recorded so far into `items`
    let drain = |items: &mut Vec<Item<T>>, taken: &mut usize| {
        let l = log.lock().unwrap();
        for e in l.events[*taken..].iter() {
            items.push(Item::Model(e.clone()));
        }
        *taken = l.events.len();
    };
    let mut panicked = false;
    let mut termination = String::from("-");
    let mut fit_ok = false;

    items.push(Item::Marker("BuildStart".into(), json!({"P": p, "N": n, "M": m, "label": rs.label}), None));
    let built = catch_unwind(AssertUnwindSafe(|| make_problem(rs, &rs.start, Some(log.clone()))));
    drain(&mut items, &mut taken);
    let mut prob = match built {
        Err(_) => {
            items.push(Item::Marker("Panic".into(), json!({"where": "build"}), None));
            return finish_items(rs, items, log.lock().unwrap().calls, true, termination, false);
        }
        Ok(Err(e)) => {
            items.push(Item::Marker("BuildEnd".into(), json!({"ok": false, "err": e}), None));
            return finish_items(rs, items, log.lock().unwrap().calls, false, termination, false);
        }
        Ok(Ok(p)) => p,
    };
    items.push(Item::Marker("BuildEnd".into(), json!({"ok": true}), Some(snap(prob.as_ref()))));

    for op in rs.caller_ops.iter() {
        let r = catch_unwind(AssertUnwindSafe(|| match op {
            COp::Set(a) => {
                prob.set_params(a);
                None
            }
            COp::Jac => Some(jac_query(rs, prob.as_ref())),
        }));
        drain(&mut items, &mut taken);
        match r {
            Err(_) => {
                items.push(Item::Marker("Panic".into(), json!({"where": "caller op"}), None));
                panicked = true;
                break;
            }
            Ok(None) => {
                let req: Vec<u64> = match op {
                    COp::Set(a) => bits_of(a),
                    COp::Jac => vec![],
                };
                items.push(Item::Marker("CSetEnd".into(), json!({"req_bits": req}), Some(snap(prob.as_ref()))))
            }
            Ok(Some((present, fresh, czero))) => items.push(Item::Marker("CJacEnd".into(), json!({"present": present, "fresh": fresh, "czero": czero}), None)),
        }
    }
    if panicked || !rs.do_fit {
        let calls = log.lock().unwrap().calls;
        return finish_items(rs, items, calls, panicked, termination, false);
    }

    let pool = crate::pools::pool(rs.threads.max(1));
    let n_fits = if rs.refit { 2 } else { 1 };
    let mut next_prob = Some(prob);
    let mut last: Option<(FitOut<T>, usize)> = None;
    for round in 0..n_fits {
        let prob = next_prob.take().unwrap();
        items.push(Item::Marker(
            "FitStart".into(),
            json!({"patience": rs.cfg.patience, "stats": rs.with_stats, "round": round}),
            None,
        ));
        let cfg = rs.cfg.clone();
        let with_stats = rs.with_stats;
        let fitted = catch_unwind(AssertUnwindSafe(|| {
            pool.install(move || {
                if with_stats {
                    let o = prob.fit_stats(&cfg, &[0.9], &[]).expect("single rhs");
                    let sok = o.stats.is_some();
                    // C12: the defining identities, whatever the fit looked like (truncated solves included):
                    // the reported weighted residuals are the final residuals, chi2 (N-M-P) = |r_w|^2, sigma^2 = chi2
                    let identity = match (&o.stats, &o.fit.fin.residuals) {
                        (Some(st), Some(r)) => {
                            let tol = if T::NAME == "f64" { 1e-9 } else { 1e-3 };
                            let dof = n as f64 - m as f64 - p as f64;
                            let ss: f64 = st.wres.iter().map(|v| v.to64() * v.to64()).sum();
                            let same = st.wres.len() == r.len() && st.wres.iter().zip(r.iter()).all(|(a, b)| a.bits() == b.bits() || (a.to64() - b.to64()).abs() <= tol * a.to64().abs().max(b.to64().abs()));
                            let chi = st.chi2.to64();
                            let rse = st.rse.to64();
                            !ss.is_finite()
                                || (same && dof > 0.0 && (chi * dof - ss).abs() <= tol * ss.max(1e-300) && (rse * rse - chi).abs() <= tol * chi.abs().max(1e-300))
                        }
                        (Some(_), None) => false,
                        _ => true,
                    };
                    (o.fit, Some(sok), identity)
                } else {
                    (prob.fit(&cfg), None, true)
                }
            })
        }));
        drain(&mut items, &mut taken);
        let (fo, sok, ident) = match fitted {
            Err(_) => {
                items.push(Item::Marker("Panic".into(), json!({"where": "fit"}), None));
                let calls = log.lock().unwrap().calls;
                return finish_items(rs, items, calls, true, termination, false);
            }
            Ok(v) => v,
        };
        termination = fo.termination.clone();
        fit_ok = fo.ok;
        if std::env::var("VPH_DEBUG_USER").is_ok() && rs.fault.is_none() && fo.termination.starts_with("User") {
            let pm = model_matrix(rs, &fo.fin.params);
            eprintln!("DEBUG-USER {} {} params={:?} phi={:?} x={:?} w={:?}", T::NAME, rs.label, fo.fin.params.iter().map(|v| v.to64()).collect::<Vec<_>>(), pm.map(|m| m.iter().map(|v| v.to64()).collect::<Vec<_>>()), rs.x.iter().map(|v| v.to64()).collect::<Vec<_>>(), rs.w.as_ref().map(|w| w.iter().map(|v| v.to64()).collect::<Vec<_>>()));
        }
        let obj = fo.objective.to64();
        let snap_end = Snap {
            params: fo.fin.params.clone(),
            present: fo.fin.coeffs.is_some(),
            resid: fo.fin.residuals.clone(),
        };
        let mut fields = json!({
            "ok": if sok.is_some() { fo.was_successful } else { fo.ok },
            "result_ok": fo.ok,
            "was_successful": fo.was_successful,
            "term": fo.termination, "nfev": fo.nfev, "objective": obj,
            "N": n, "M": m,
            "certified": false, "noworse": true, "orth": true, "reproduces": true,
        });
        fields["coherent"] = json!(coherent(rs, &fo));
        // the optimizer reports "residuals are literally zero" only when their norm is at most the
        // smallest positive normal number: then no entry can be larger
        let minpos = if T::NAME == "f64" { f64::MIN_POSITIVE } else { f32::MIN_POSITIVE as f64 };
        fields["rzero"] = json!(fo.fin.residuals.as_ref().map(|r| r.iter().all(|v| v.to64().abs() <= minpos)).unwrap_or(false));
        let name = if let Some(s) = sok {
            fields["sok"] = json!(s);
            fields["identity"] = json!(ident);
            "StatsEnd"
        } else {
            "FitEnd"
        };
        items.push(Item::Marker(name.into(), fields, Some(snap_end)));
        let end_pos = items.len() - 1;
        // the problem a fit hands back is an ordinary problem: its Jacobian can be queried ...
        if rs.post_jac {
            let q = catch_unwind(AssertUnwindSafe(|| pool.install(|| jac_query(rs, fo.problem.as_ref()))));
            drain(&mut items, &mut taken);
            match q {
                Err(_) => {
                    items.push(Item::Marker("Panic".into(), json!({"where": "jacobian of the returned problem"}), None));
                    let calls = log.lock().unwrap().calls;
                    return finish_items(rs, items, calls, true, termination, false);
                }
                Ok((present, fresh, czero)) => items.push(Item::Marker("CJacEnd".into(), json!({"present": present, "fresh": fresh, "czero": czero}), None)),
            }
        }
        // ... and it can be fitted again
        if round + 1 < n_fits {
            let FitOut { problem, .. } = fo;
            next_prob = Some(problem);
        } else {
            last = Some((fo, end_pos));
        }
    }
    let (fo, end_pos) = last.unwrap();
    // best fit: one more model evaluation
    let FitOut { problem, fin: fin0, .. } = fo;
    let bf = catch_unwind(AssertUnwindSafe(|| problem.finish()));
    drain(&mut items, &mut taken);
    let mut digest = None;
    match bf {
        Err(_) => {
            items.push(Item::Marker("Panic".into(), json!({"where": "best_fit"}), None));
            panicked = true;
        }
        Ok(fin) => {
            digest = certify(rs, &fin);
            items.push(Item::Marker("BestFit".into(), json!({"present": fin.best_fit.is_some()}), None));
        }
    }
    let _ = fin0;
    // C05 digest goes into the FitEnd / StatsEnd event
    if let Item::Marker(_, f, _) = &mut items[end_pos] {
        f["certified"] = json!(digest.is_some());
        f["noworse"] = json!(digest.map(|d| d.0).unwrap_or(true));
        f["orth"] = json!(digest.map(|d| d.1).unwrap_or(true));
        f["reproduces"] = json!(digest.map(|d| d.2).unwrap_or(true));
    }
    let calls = log.lock().unwrap().calls;
    finish_items(rs, items, calls, panicked, termination, fit_ok)
}

/// the model matrix Phi(alpha) computed by the harness' own hand-written model (independent of the problem)
fn model_matrix<T: Sc>(rs: &RunSpec<T>, params: &[T]) -> Option<DMatrix<T>> {
    use varpro::model::SeparableNonlinearModel;
    let r = catch_unwind(AssertUnwindSafe(|| {
        if poly_is_family(&rs.fam) {
            PolyModel::new(&rs.fam, &rs.x, params).eval().ok()
        } else {
            ExpModel::new(&rs.fam, &rs.x, params).eval().ok()
        }
    }));
    r.ok().flatten().map(|m| DMatrix::from_fn(m.nrows(), m.ncols(), |i, j| m[(i, j)]))
}

/// C04 / C02: what a fit hands back belongs together - residuals = W(Y - Phi(alpha) C) for the returned
/// alpha and C (recomputed here from the harness' own model), reported objective = |residuals|^2 / 2.
/// True when nothing is exposed or the values are not finite (judged elsewhere).
fn coherent<T: Sc>(rs: &RunSpec<T>, fo: &FitOut<T>) -> bool {
    let (Some(c), Some(r)) = (fo.fin.coeffs.as_ref(), fo.fin.residuals.as_ref()) else {
        return true;
    };
    let Some(phi) = model_matrix(rs, &fo.fin.params) else {
        return true;
    };
    let (n, s) = (rs.y.nrows(), rs.y.ncols());
    if phi.nrows() != n || phi.ncols() != c.nrows() || c.ncols() != s || r.len() != n * s {
        return false;
    }
    let tol = if T::NAME == "f64" { 1e-8 } else { 2e-3 };
    let mut scale = 0.0f64;
    let mut worst = 0.0f64;
    let mut sumsq = 0.0f64;
    for q in 0..s {
        for i in 0..n {
            let wi = rs.w.as_ref().map(|w| w[i].to64()).unwrap_or(1.0);
            let mut fit = 0.0f64;
            let mut mag = (wi * rs.y[(i, q)].to64()).abs();
            for j in 0..phi.ncols() {
                let t = phi[(i, j)].to64() * c[(j, q)].to64();
                fit += t;
                mag = mag.max((wi * t).abs());
            }
            let e = wi * (rs.y[(i, q)].to64() - fit);
            let g = r[q * n + i].to64();
            if !e.is_finite() {
                return true; // the data themselves are not finite here: judged elsewhere
            }
            if !g.is_finite() {
                return false; // a non-finite residual where a finite one is due
            }
            scale = scale.max(mag);
            worst = worst.max((g - e).abs());
            sumsq += g * g;
        }
    }
    let obj = fo.objective.to64();
    let obj_ok = !obj.is_finite() || (obj - 0.5 * sumsq).abs() <= tol * (0.5 * sumsq).max(scale * scale * tol);
    worst <= tol * scale.max(1e-300) && obj_ok
}

/// numerical facts of C05 for certified instances: (no worse than truth, residual orthogonal to
/// the Jacobian columns, noiseless data reproduced)
fn certify<T: Sc>(rs: &RunSpec<T>, fin: &Finish<T>) -> Option<(bool, bool, bool)> {
    let cert = rs.cert.as_ref()?;
    let eps = if T::NAME == "f64" { f64::EPSILON } else { f32::EPSILON as f64 };
    let slack = if T::NAME == "f64" { 1e-9 } else { 1e-5 };
    // objective at the generating parameters
    let at_truth = make_problem(rs, &cert.truth, None).ok()?;
    let rt = at_truth.residuals()?;
    let f_truth: f64 = rt.iter().map(|v| v.to64() * v.to64()).sum();
    let yw_norm: f64 = at_truth.weighted_data().iter().map(|v| v.to64() * v.to64()).sum::<f64>().sqrt();
    let r = fin.residuals.clone()?;
    let f_fit: f64 = r.iter().map(|v| v.to64() * v.to64()).sum();
    let floor = (100.0 * eps * yw_norm).powi(2);
    let noworse = f_fit <= f_truth * (1.0 + slack) + floor;
    // orthogonality of the residual to the Jacobian columns at the returned point
    let rnorm = f_fit.sqrt();
    let mut orth = true;
    if rnorm >= 1e-6 * yw_norm {
        if let Ok(fresh) = make_problem(rs, &fin.params, None) {
            let (fj, fr) = (fresh.jacobian(), fresh.residuals());
            if fj.is_none() || fr.is_none() {
                orth = false; // a certified instance evaluates everywhere near its optimum
            }
            if let (Some(j), Some(rr)) = (fj, fr) {
                for k in 0..j.ncols() {
                    let mut dot = 0.0;
                    let mut jn = 0.0;
                    for i in 0..j.nrows() {
                        dot += j[(i, k)].to64() * rr[i].to64();
                        jn += j[(i, k)].to64() * j[(i, k)].to64();
                    }
                    let cosv = dot.abs() / (jn.sqrt() * rnorm).max(1e-300);
                    let lim = if T::NAME == "f64" { 1e-5 } else { 5e-2 };
                    if std::env::var("VPH_C05_DEBUG").is_ok() {
                        eprintln!("COS {} {} {:e} truth={:?} N={} S={} w={} {}", T::NAME, rs.fam, cosv, cert.truth.iter().map(|v| v.to64()).collect::<Vec<_>>(), rs.x.len(), rs.y.ncols(), rs.w.is_some(), rs.label);
                    }
                    if cosv > lim {
                        orth = false;
                    }
                }
            }
        }
    }
    // noiseless observations are reproduced to rounding accuracy
    let mut reproduces = true;
    if cert.noiseless {
        match &fin.best_fit {
            None => reproduces = false,
            Some(bf) => {
                let lim = if T::NAME == "f64" { 1e-8 } else { 1e-3 };
                let ymax = rs.y.iter().fold(0.0f64, |m, v| m.max(v.to64().abs())).max(1e-300);
                for i in 0..bf.nrows() {
                    for s in 0..bf.ncols() {
                        if (bf[(i, s)].to64() - rs.y[(i, s)].to64()).abs() > lim * ymax {
                            reproduces = false;
                        }
                    }
                }
            }
        }
    }
    Some((noworse, orth, reproduces))
}

fn finish_items<T: Sc>(rs: &RunSpec<T>, items: Vec<Item<T>>, calls: usize, panicked: bool, termination: String, fit_ok: bool) -> RunOut {
    // provenance ids in order of first appearance
    let mut vecs: Vec<(Vec<u64>, Vec<T>)> = Vec::new();
    let mut aid_of = |bits: &Vec<u64>, vals: Option<&[T]>, vecs: &mut Vec<(Vec<u64>, Vec<T>)>| -> usize {
        if let Some(i) = vecs.iter().position(|(b, _)| b == bits) {
            return i;
        }
        let v: Vec<T> = match vals {
            Some(v) => v.to_vec(),
            None => bits
                .iter()
                .map(|&b| if T::NAME == "f64" { T::of64(f64::from_bits(b)) } else { T::of64(f32::from_bits(b as u32) as f64) })
                .collect(),
        };
        vecs.push((bits.clone(), v));
        vecs.len() - 1
    };
    // first pass: assign aids
    let mut ev_aids: Vec<Option<usize>> = Vec::new();
    // the parameters a caller asked for in an update (markers carrying "req_bits")
    let mut req_aids: Vec<Option<usize>> = Vec::new();
    for it in items.iter() {
        let mut req = None;
        if let Item::Marker(_, f, _) = it {
            if let Some(rb) = f.get("req_bits").and_then(|v| v.as_array()) {
                let bits: Vec<u64> = rb.iter().filter_map(|v| v.as_u64()).collect();
                req = Some(aid_of(&bits, None, &mut vecs));
            }
        }
        req_aids.push(req);
        match it {
            Item::Model(e) => ev_aids.push(Some(aid_of(&e.pbits, None, &mut vecs))),
            Item::Marker(_, _, Some(s)) => ev_aids.push(Some(aid_of(&bits_of(&s.params), Some(&s.params), &mut vecs))),
            Item::Marker(..) => ev_aids.push(None),
        }
    }
    // fresh (fault free, unrecorded) problems at every visited parameter vector
    let fresh: Vec<Option<Vec<T>>> = vecs
        .iter()
        .map(|(_, v)| {
            catch_unwind(AssertUnwindSafe(|| make_problem(rs, v, None).ok().and_then(|p| p.residuals())))
                .unwrap_or(None)
        })
        .collect();
    let fvals: Vec<f64> = fresh
        .iter()
        .map(|r| match r {
            Some(r) => 0.5 * r.iter().map(|v| v.to64() * v.to64()).sum::<f64>(),
            None => f64::INFINITY,
        })
        .collect();
    let rank_tol = if T::NAME == "f64" { 1e-11 } else { 1e-4 };
    let ranks_with = |extra: f64| -> (Vec<i64>, i64) {
        let mut all: Vec<(f64, usize)> = fvals.iter().cloned().enumerate().map(|(i, v)| (v, i)).collect();
        all.push((extra, usize::MAX));
        let key = |v: f64| if v.is_nan() { f64::INFINITY } else { v };
        all.sort_by(|a, b| key(a.0).partial_cmp(&key(b.0)).unwrap());
        let mut ranks = vec![0i64; fvals.len()];
        let mut erank = 0i64;
        let mut cur = 0i64;
        let mut prev: Option<f64> = None;
        for (v, i) in all {
            let kv = key(v);
            if let Some(pv) = prev {
                let same = kv == pv || (kv - pv).abs() <= rank_tol * kv.abs().max(pv.abs());
                if !same {
                    cur += 1;
                }
            }
            prev = Some(kv);
            if i == usize::MAX {
                erank = cur;
            } else {
                ranks[i] = cur;
            }
        }
        (ranks, erank)
    };
    let owners_of = |s: &Snap<T>| -> Vec<usize> {
        match &s.resid {
            None => vec![],
            Some(r) => (0..vecs.len())
                .filter(|&i| match &fresh[i] {
                    Some(fr) => close(fr, r),
                    None => false,
                })
                .collect(),
        }
    };
    let mut out = Vec::new();
    for ((it, aid), req) in items.iter().zip(ev_aids.iter()).zip(req_aids.iter()) {
        match it {
            Item::Model(e) => {
                if e.begin {
                    continue;
                }
                let v = match &e.call {
                    Call::Set => json!({"ev": "MSet", "aid": aid.unwrap(), "ok": e.ok}),
                    Call::Eval => json!({"ev": "MEval", "aid": aid.unwrap(), "ok": e.ok}),
                    Call::Deriv(k) => json!({"ev": "MDeriv", "k": k, "aid": aid.unwrap(), "ok": e.ok, "tid": e.tid}),
                };
                out.push(v);
            }
            Item::Marker(name, fields, s) => {
                let mut v = fields.clone();
                v["ev"] = json!(name);
                if let Some(s) = s {
                    v["params"] = json!(aid.unwrap());
                    v["present"] = json!(s.present);
                    v["owners"] = json!(owners_of(s));
                    if name == "FitEnd" || name == "StatsEnd" {
                        let obj = v["objective"].as_f64().unwrap_or(f64::NAN);
                        let (ranks, er) = ranks_with(obj);
                        v["frank"] = json!(ranks);
                        v["objrank"] = json!(er);
                    }
                }
                // floats cannot be read by TLC's Json module: drop them
                if let Some(o) = v.as_object_mut() {
                    if o.remove("req_bits").is_some() {
                        if let Some(r) = req {
                            o.insert("req".into(), json!(r));
                        }
                    }
                    o.remove("objective");
                    o.remove("label");
                    o.remove("err");
                    o.remove("where");
                }
                out.push(v);
            }
        }
    }
    RunOut {
        differs_from_clean: false,
        events: out,
        termination,
        calls,
        panicked,
        fit_ok,
    }
}

// ------------------------------------------------------------------------------------------
// scenario generation
// ------------------------------------------------------------------------------------------
fn grid<T: Sc>(n: usize) -> Vec<T> {
    // centred integer grid as in the specification
    let lo: i64 = -((n as i64 - 1) / 2);
    (0..n).map(|i| T::of64((lo + i as i64) as f64)).collect()
}
fn linspace<T: Sc>(a: f64, b: f64, n: usize) -> Vec<T> {
    (0..n).map(|i| T::of64(a + (b - a) * i as f64 / (n as f64 - 1.0))).collect()
}

/// synthetic data of an exponential family: returns (y, truth alpha)
fn exp_data<T: Sc>(fam: &str, x: &[T], s: usize, noise: f64, rng: &mut StdRng) -> (DMatrix<T>, Vec<T>) {
    let (m, _p) = exp_shape(fam);
    let t1 = rng.gen_range(0.8..1.6);
    let ratio = rng.gen_range(3.0..6.0);
    let truth: Vec<f64> = match fam {
        "SExpOff" => vec![t1 * 2.0],
        "DExp" | "DExpOff" => vec![t1, t1 * ratio],
        "TExp" => vec![t1 * 0.5, t1 * 0.5 * ratio, t1 * 0.5 * ratio * ratio],
        "GaussExpOff" => vec![rng.gen_range(4.0..6.0), rng.gen_range(0.6..1.2), t1 * 3.0],
        _ => unreachable!(),
    };
    let tt: Vec<T> = truth.iter().map(|&v| T::of64(v)).collect();
    let mut y = DMatrix::from_element(x.len(), s, T::zero());
    for sc in 0..s {
        let c: Vec<f64> = (0..m).map(|_| rng.gen_range(0.5..3.0)).collect();
        let mut ymax = 0.0f64;
        for i in 0..x.len() {
            let mut v = 0.0;
            for j in 0..m {
                v += c[j] * exp_phi(fam, x[i], j, &tt).to64();
            }
            ymax = ymax.max(v.abs());
            y[(i, sc)] = T::of64(v);
        }
        if noise > 0.0 {
            for i in 0..x.len() {
                let u: f64 = rng.gen_range(-1.0..1.0);
                y[(i, sc)] = T::of64(y[(i, sc)].to64() + noise * ymax * u);
            }
        }
    }
    (y, tt)
}

fn exp_data_with<T: Sc>(fam: &str, x: &[T], s: usize, noise: f64, truth: &[T], rng: &mut StdRng) -> (DMatrix<T>, Vec<T>) {
    let (m, _p) = exp_shape(fam);
    let mut y = DMatrix::from_element(x.len(), s, T::zero());
    for sc in 0..s {
        let c: Vec<f64> = (0..m).map(|_| rng.gen_range(0.5..3.0)).collect();
        let mut ymax = 0.0f64;
        for i in 0..x.len() {
            let mut v = 0.0;
            for j in 0..m {
                v += c[j] * exp_phi(fam, x[i], j, truth).to64();
            }
            ymax = ymax.max(v.abs());
            y[(i, sc)] = T::of64(v);
        }
        if noise > 0.0 {
            for i in 0..x.len() {
                let u: f64 = rng.gen_range(-1.0..1.0);
                y[(i, sc)] = T::of64(y[(i, sc)].to64() + noise * ymax * u);
            }
        }
    }
    (y, truth.to_vec())
}

const POLY_FIT_FAMS: [&str; 8] = ["Q1", "Q2", "S22", "D22", "I32", "T13", "C31", "E22"];

fn cfg_variant(i: usize) -> LmCfg {
    let pats = [100usize, 1, 2, 5, 100, 3];
    let mut c = LmCfg {
        patience: pats[i % pats.len()],
        ..LmCfg::default()
    };
    match (i / 6) % 4 {
        1 => c.stepbound = 0.1,
        2 => {
            c.ftol = Some(1e-3);
            c.xtol = Some(1e-3);
            c.gtol = Some(1e-3);
        }
        3 => c.scale_diag = false,
        _ => {}
    }
    if i % 11 == 7 {
        c.ftol = Some(0.0);
        c.xtol = Some(0.0);
        c.gtol = Some(0.0);
    }
    c
}

/// lattice data for a polynomial family (not generated by the model: residuals stay non-zero)
fn poly_run<T: Sc>(i: usize, rng: &mut StdRng) -> RunSpec<T> {
    let fam = POLY_FIT_FAMS[i % POLY_FIT_FAMS.len()];
    let (_m, p) = poly_shape(fam);
    let n = 6 + (i / 8) % 2;
    let x = grid::<T>(n);
    let s = 1 + (i / 3) % 2;
    let y = DMatrix::from_fn(n, s, |r, c| T::of64(rng.gen_range(-3i64..=3) as f64 + if c == 1 { r as f64 * 0.5 } else { 0.0 }));
    let w = match if i % 8 == 5 { 3 } else { i % 3 } {
        // one common weight for all samples, different from one (every observation has the same sigma)
        3 => Some(vec![T::of64(if i % 16 == 5 { 0.25 } else { 2.0 }); n]),
        0 => None,
        1 => Some((0..n).map(|r| T::of64(1.0 + (r % 3) as f64 * 0.5)).collect()),
        _ => Some((0..n).map(|r| T::of64(if r == 1 { 0.0 } else if r == 2 { -1.0 } else { 2.0 })).collect()),
    };
    let start: Vec<T> = (0..p).map(|k| T::of64(rng.gen_range(-1i64..=2) as f64 + 0.25 * k as f64)).collect();
    RunSpec {
        label: format!("poly {} #{}", fam, i),
        fam: fam.to_string(),
        built: i % 2 == 1,
        x,
        y,
        w,
        start,
        mrhs: s >= 2 || i % 5 == 0,
        par: i % 4 == 3,
        cfg: cfg_variant(i),
        with_stats: false,
        caller_ops: vec![],
        fault: None,
        do_fit: true,
        cert: None,
        threads: [1, 2, 4, 16][i % 4],
        post_jac: i % 2 == 0,
        refit: i % 3 == 1,
        // a regularising threshold: the truncated solve is active along the fit
        eps: if i % 7 == 3 { Some(T::of64([0.3, 2.0][(i / 7) % 2])) } else { None },
        weights_first: (i / 3) % 2 == 1,
    }
}

/// sample count override for the uncertified exponential runs (0 = none): large problems
static N_OVERRIDE: std::sync::atomic::AtomicUsize = std::sync::atomic::AtomicUsize::new(0);

fn exp_run<T: Sc>(i: usize, near: bool, rng: &mut StdRng) -> RunSpec<T> {
    let fams3 = ["DExp", "DExpOff", "SExpOff"];
    let fams5 = ["DExp", "DExpOff", "SExpOff", "TExp", "GaussExpOff"];
    let wide = std::env::var("VPH_C05_WIDE").is_ok();
    let fam = if near && wide { fams5[i % 5] } else { fams3[i % 3] };
    let (_m, p) = exp_shape(fam);
    let n_over = N_OVERRIDE.load(std::sync::atomic::Ordering::Relaxed);
    let n = if near { 40 + (i * 37) % 360 } else if n_over > 0 { n_over } else { 30 + (i % 3) * 20 };
    let s = [1usize, 2, 4][(i / 2) % 3];
    // noise level independent of the family (the family index is i % 3)
    let noise = if near { [0.0, 0.001, 0.01][(i / 3) % 3] } else { [0.0, 0.02][i % 2] };
    let x0 = linspace::<T>(0.0, 10.0, n);
    let (y0, truth0) = exp_data::<T>(fam, &x0, s, noise, rng);
    // identifiability of a decay against a constant offset needs a window that covers the slowest
    // decay: in the certified regime the samples span at least four slowest time constants
    let slowest = truth0.iter().fold(0.0f64, |m, v| m.max(v.to64()));
    let (x, y, truth) = if near && fam.ends_with("Off") && 4.0 * slowest > 10.0 {
        let x1 = linspace::<T>(0.0, 4.0 * slowest, n);
        let (y1, t1) = exp_data_with::<T>(fam, &x1, s, noise, &truth0, rng);
        (x1, y1, t1)
    } else {
        (x0, y0, truth0)
    };
    let w = if i % 2 == 0 {
        None
    } else if i % 12 == 5 {
        // one common sigma for all samples: all weights equal and different from one
        Some(vec![T::of64(if i % 24 == 5 { 0.5 } else { 1.75 }); n])
    } else {
        Some((0..n).map(|_| T::of64(rng.gen_range(0.5..2.0))).collect())
    };
    let start: Vec<T> = if near {
        truth.iter().map(|t| T::of64(t.to64() * (1.0 + rng.gen_range(-0.03..0.03)))).collect()
    } else {
        (0..p).map(|k| T::of64(rng.gen_range(0.5..3.0) * (1.0 + 2.0 * k as f64))).collect()
    };
    RunSpec {
        label: format!("exp {} #{}", fam, i),
        fam: fam.to_string(),
        built: i % 2 == 0,
        x,
        y,
        w,
        start,
        mrhs: s >= 2,
        par: i % 5 == 4,
        cfg: if near { LmCfg::default() } else { cfg_variant(i) },
        with_stats: false,
        caller_ops: vec![],
        fault: None,
        do_fit: true,
        cert: if near { Some(Cert { truth, noiseless: noise == 0.0 }) } else { None },
        threads: [1, 3, 8][i % 3],
        post_jac: !near && i % 2 == 1,
        refit: !near && i % 4 == 2,
        eps: None,
        weights_first: (i / 2) % 2 == 1,
    }
}

/// the same observations in a small unit (an exact power of two): the residual norm at any guess is
/// far below machine epsilon in absolute terms, and nothing about the fit may depend on that
fn small_unit<T: Sc>(rs: &mut RunSpec<T>) {
    let f = T::of64(if T::NAME == "f64" { f64::from_bits((1023u64 - 60) << 52) } else { f64::from_bits((1023u64 - 30) << 52) });
    rs.y = rs.y.map(|v| v * f);
    rs.label = format!("{} small-unit", rs.label);
}

fn write_runs(path: &str, runs: &[RunOut]) -> usize {
    let mut f = std::io::BufWriter::new(std::fs::File::create(path).expect("create trace file"));
    let mut n = 0;
    for r in runs {
        for e in &r.events {
            writeln!(f, "{}", serde_json::to_string(e).unwrap()).unwrap();
            n += 1;
        }
    }
    n
}

fn summarize(rep: &mut Report, runs: &[RunOut], tag: &str) {
    for r in runs {
        rep.count(&format!("{}_runs", tag), 1);
        rep.count(&format!("{}_term_{}", tag, r.termination), 1);
        rep.count(&format!("{}_events", tag), r.events.len() as u64);
        if r.panicked {
            rep.count(&format!("{}_panics", tag), 1);
        }
        if r.fit_ok {
            rep.count(&format!("{}_fit_ok", tag), 1);
        }
        if r.differs_from_clean {
            rep.count("faulty_runs_differing_from_fault_free_run", 1);
        }
    }
}

fn seed_from_env() -> u64 {
    std::env::var("VERIF_SEED").ok().and_then(|s| s.parse().ok()).unwrap_or(1)
}

fn gen_and_record<T: Sc>(mode: &str, count: usize, rng: &mut StdRng) -> Vec<RunOut> {
    let mut outs = Vec::new();
    match mode {
        "c04" => {
            for i in 0..count {
                let mut rs = if i % 3 == 2 { exp_run::<T>(i, false, rng) } else { poly_run::<T>(i, rng) };
                if i % 23 == 5 {
                    // observations that the model reproduces exactly (all zero): the residuals are
                    // literally zero and the optimizer stops with ResidualsZero at the start
                    rs.y = DMatrix::from_element(rs.y.nrows(), rs.y.ncols(), T::zero());
                    rs.label = format!("{} zero-observations", rs.label);
                }
                if i % 29 == 7 || i % 29 == 19 {
                    // a non-finite observation: the objective is not a number and the optimizer must give up
                    // with a numerical failure - reported as a failure, never as a success
                    let v = if i % 29 == 7 { f64::NAN } else { f64::INFINITY };
                    rs.y[(1, 0)] = T::of64(v);
                    rs.label = format!("{} non-finite observation", rs.label);
                }
                if i % 19 == 4 || i % 19 == 13 {
                    small_unit(&mut rs);
                }
                outs.push(record_run(&rs));
            }
        }
        "c05" => {
            for i in 0..count {
                let mut rs = exp_run::<T>(i, true, rng);
                if i % 7 == 3 {
                    small_unit(&mut rs);
                }
                if i % 5 == 1 {
                    // a caller's singular value threshold far below every singular value: truncates nothing
                    // (a fiftieth of the smallest singular value of the weighted basis matrix at the start and at the truth)
                    let mut smin = f64::INFINITY;
                    let truth = rs.cert.as_ref().map(|c| c.truth.clone()).unwrap_or_else(|| rs.start.clone());
                    for a in [&rs.start, &truth] {
                        if let Some(phi) = model_matrix(&rs, a) {
                            let pw = DMatrix::<f64>::from_fn(phi.nrows(), phi.ncols(), |r, c| rs.w.as_ref().map(|w| w[r].to64()).unwrap_or(1.0) * phi[(r, c)].to64());
                            smin = pw.singular_values().iter().fold(smin, |m, v| m.min(*v));
                        }
                    }
                    let floor = if T::NAME == "f64" { 1e-6 } else { 1e-4 };
                    if smin.is_finite() && smin / 50.0 >= floor {
                        rs.eps = Some(T::of64(smin / 50.0));
                        rs.label = format!("{} user-threshold", rs.label);
                    }
                }
                outs.push(record_run(&rs));
            }
        }
        "c09" => {
            // fit_with_statistics on fits that run out of patience (a failed fit: no statistics)
            {
                let mut j = 0usize;
                let mut made = 0;
                while made < 4 {
                    let mut rs = exp_run::<T>(j, true, rng);
                    j += 1;
                    if rs.mrhs {
                        continue;
                    }
                    rs.cert = None;
                    rs.with_stats = true;
                    rs.cfg = LmCfg { patience: 1, ..LmCfg::default() };
                    rs.label = format!("{} statistics of a fit that lost patience", rs.label);
                    outs.push(record_run(&rs));
                    made += 1;
                }
            }
            // fault enumeration: every model call index of the fault free run, transient and persistent
            let mut i = 0usize;
            let mut budget = count;
            while budget > 0 {
                // one scenario in 21 is LARGE: 2100 samples x 2 right hand sides through the parallel
                // constructors (size dependent code paths must propagate failures like the small ones)
                let large = i % 21 == 2;
                if large {
                    N_OVERRIDE.store(2100, std::sync::atomic::Ordering::Relaxed);
                }
                let mut base = if i % 3 == 2 { exp_run::<T>(i, false, rng) } else { poly_run::<T>(i, rng) };
                N_OVERRIDE.store(0, std::sync::atomic::Ordering::Relaxed);
                if large {
                    base.par = true;
                    base.mrhs = true;
                    base.label = format!("{} large parallel", base.label);
                }
                if base.cfg.patience > 5 {
                    base.cfg.patience = 5;
                }
                base.with_stats = !base.mrhs && i % 2 == 0;
                if base.with_stats && i % 4 == 0 && poly_is_family(&base.fam) {
                    // statistics of a fit with a regularising threshold (truncated solves)
                    base.eps = Some(T::of64(0.3));
                }
                if i % 3 == 1 {
                    // a fit that succeeds, so that the statistics phase is really entered: certified
                    // regime, single right hand side, default optimizer
                    let mut j = i;
                    base = exp_run::<T>(j, true, rng);
                    while base.mrhs {
                        j += 1;
                        base = exp_run::<T>(j, true, rng);
                    }
                    base.cert = None;
                    base.with_stats = true;
                }
                if i % 7 == 4 {
                    // as many samples as basis functions (or one less): the Jacobian vanishes up to rounding,
                    // yet failures propagate like anywhere else
                    let (m0, _) = fam_shape(&base.fam);
                    let keep = if i % 14 == 4 { m0 } else { m0.saturating_sub(1).max(1) };
                    if keep < base.x.len() {
                        base.x = base.x.iter().take(keep).cloned().collect();
                        base.y = base.y.rows(0, keep).into_owned();
                        base.w = base.w.map(|w| w.into_iter().take(keep).collect());
                        base.cert = None;
                        base.label = format!("{} N={}", base.label, keep);
                    }
                }
                let (_m, p) = fam_shape(&base.fam);
                // a caller driven history before the fit
                let a1: Vec<T> = base.start.iter().map(|v| *v + T::of64(0.5)).collect();
                let a2: Vec<T> = base.start.iter().map(|v| *v - T::of64(0.25)).collect();
                // ... including an update that moves one parameter by a few ulps only (a distinct parameter
                // vector: everything has to be recomputed for it) and a return to the start
                let mut a3 = base.start.clone();
                let last = a3.len() - 1;
                a3[last] = a3[last] * T::of64(1.0 + if T::NAME == "f64" { 1e-13 } else { 1e-6 });
                base.caller_ops = vec![COp::Set(a1), COp::Jac, COp::Set(a2), COp::Set(a3), COp::Set(base.start.clone()), COp::Jac];
                let _ = p;
                let clean = record_run(&base);
                let k = clean.calls;
                let clean_events = clean.events.clone();
                outs.push(clean);
                let stride = (k / 40).max(1);
                let mut idx = 0;
                while idx < k && budget > 0 {
                    for persistent in [false, true] {
                        let mut rs = base.clone();
                        rs.fault = Some((idx, persistent));
                        let mut o = record_run(&rs);
                        // non-trivial: the injected fault changed the observable behaviour
                        o.differs_from_clean = o.events != clean_events;
                        outs.push(o);
                        budget = budget.saturating_sub(1);
                    }
                    idx += stride;
                }
                i += 1;
            }
        }
        other => panic!("unknown fittrace mode {other}"),
    }
    outs
}

pub fn run(mode: &str, out_path: &str, count: usize) -> Report {
    let mut rep = Report::new();
    let seed = seed_from_env();
    let mut rng = StdRng::seed_from_u64(seed.wrapping_mul(7919).wrapping_add(mode.len() as u64));
    let c64 = count - count / 4;
    let mut runs = gen_and_record::<f64>(mode, c64, &mut rng);
    summarize(&mut rep, &runs, "f64");
    let r32 = gen_and_record::<f32>(mode, count / 4, &mut rng);
    summarize(&mut rep, &r32, "f32");
    runs.extend(r32);
    let nev = write_runs(out_path, &runs);
    rep.count("events_written", nev as u64);
    rep.count("runs_written", runs.len() as u64);
    for r in runs.iter().step_by((runs.len() / 3).max(1)).take(3) {
        rep.sample(json!({"events": r.events.iter().take(40).collect::<Vec<_>>(), "termination": r.termination}));
    }
    rep
}

// ------------------------------------------------------------------------------------------
// paired fits: two problems that must behave alike along a whole fit (C06, C07, C11)
// ------------------------------------------------------------------------------------------
struct FitFacts<T: Sc> {
    ok: bool,
    term: String,
    nfev: usize,
    params: Vec<T>,
    coeffs: Option<DMatrix<T>>,
    chi2_cov: Option<(T, DMatrix<T>)>,
}
fn fit_facts<T: Sc>(rs: &RunSpec<T>, stats: bool) -> Option<FitFacts<T>> {
    let prob = make_problem(rs, &rs.start, None).ok()?;
    let pool = crate::pools::pool(rs.threads.max(1));
    pool.install(|| {
        if stats && !rs.mrhs {
            let o = prob.fit_stats(&rs.cfg, &[], &[])?;
            Some(FitFacts {
                ok: o.fit.ok,
                term: o.fit.termination.clone(),
                nfev: o.fit.nfev,
                params: o.fit.fin.params.clone(),
                coeffs: o.fit.fin.coeffs.clone(),
                chi2_cov: o.stats.map(|s| (s.chi2, s.cov)),
            })
        } else {
            let o = prob.fit(&rs.cfg);
            Some(FitFacts {
                ok: o.ok,
                term: o.termination.clone(),
                nfev: o.nfev,
                params: o.fin.params.clone(),
                coeffs: o.fin.coeffs.clone(),
                chi2_cov: None,
            })
        }
    })
}
fn rel_close<T: Sc>(a: &[T], b: &[T], tol: f64) -> f64 {
    if a.len() != b.len() {
        return f64::INFINITY;
    }
    a.iter().zip(b.iter()).fold(0.0f64, |m, (x, y)| {
        let (x, y) = (x.to64(), y.to64());
        let d = (x - y).abs() / (1.0 + x.abs().max(y.abs()));
        // (f64::max ignores NaN: a value that is NaN or infinite on one side only must not vanish)
        if d.is_nan() && !(x.is_nan() && y.is_nan()) && x != y { f64::INFINITY } else { m.max(d) }
    }) / tol
}

pub fn run_pairs(count: usize) -> Report {
    let mut rep = Report::new();
    let seed = seed_from_env();
    let mut rng = StdRng::seed_from_u64(seed.wrapping_mul(2477));
    run_pairs_t::<f64>(count, &mut rng, &mut rep);
    run_pairs_t::<f32>(count / 4, &mut rng, &mut rep);
    rep
}

fn run_pairs_t<T: Sc>(count: usize, rng: &mut StdRng, rep: &mut Report) {
    // pair tolerances: t8 (f64) / 1e-3 (f32) relative for seq-vs-par and weighted-vs-twin, looser for permutations
    let t8 = if T::NAME == "f64" { 1e-8 } else { 1e-3 };
    let t6 = if T::NAME == "f64" { 1e-6 } else { 1e-2 };
    let t7 = if T::NAME == "f64" { 1e-7 } else { 1e-2 };
    for i in 0..count {
        // certified regime: fits converge, so that end results can be compared
        let base = exp_run::<T>(i, true, rng);
        // ---- C11: sequential vs parallel, several pool sizes
        {
            let mut a = base.clone();
            a.par = false;
            let mut b = base.clone();
            b.par = true;
            b.threads = [1, 2, 3, 4, 8, 16][i % 6];
            // (single right hand sides through fit_with_statistics: the statistics of a parallel problem
            // are those of the sequential one)
            if let (Some(fa), Some(fb)) = (fit_facts(&a, true), fit_facts(&b, true)) {
                let d = rel_close(&fa.params, &fb.params, t8);
                let dc = match (&fa.coeffs, &fb.coeffs) {
                    (Some(x), Some(y)) => rel_close(x.as_slice(), y.as_slice(), t8),
                    (None, None) => 0.0,
                    _ => f64::INFINITY,
                };
                let ds = match (&fa.chi2_cov, &fb.chi2_cov) {
                    (Some((c1, v1)), Some((c2, v2))) => rel_close(&[*c1], &[*c2], t8).max(rel_close(v1.as_slice(), v2.as_slice(), t7)),
                    (None, None) => 0.0,
                    _ => f64::INFINITY,
                };
                rep.check("C11", ds <= 1.0, ds, || {
                    json!({"what": "fit_with_statistics: statistics of the parallel problem differ from the sequential one", "label": base.label, "threads": b.threads, "dstats": ds})
                });
                rep.check("C11", fa.ok == fb.ok && fa.term == fb.term && d <= 1.0 && dc <= 1.0, d.max(dc) * t8, || {
                    json!({"what": "whole fit: parallel problem ends differently from the sequential one", "label": base.label, "threads": b.threads,
                           "seq": [fa.ok, fa.term, fa.nfev], "par": [fb.ok, fb.term, fb.nfev], "dparams": d * t8})
                });
                if fa.nfev == fb.nfev && bits_eq(&fa.params, &fb.params) {
                    rep.count("c11_fit_bitwise_equal", 1);
                } else {
                    rep.count("c11_fit_drift", 1);
                }
            }
        }
        // ---- C06: weighted problem vs its row scaled unweighted twin (model rows and data pre-multiplied)
        // every other weighted instance gets a zero and a negative weight
        let mut base = base;
        if let Some(w) = base.w.as_mut() {
            if i % 4 == 1 && w.len() > 8 {
                w[3] = T::zero();
                w[7] = -w[7];
            }
            // on every eighth instance no weight is positive and one is zero (the largest weight is 0)
            if i % 8 == 3 && w.len() > 8 {
                for v in w.iter_mut() {
                    *v = -*v;
                }
                w[2] = T::zero();
            }
        }
        if let Some(w) = base.w.clone() {
            let mut twin = base.clone();
            twin.w = None;
            twin.y = DMatrix::from_fn(base.y.nrows(), base.y.ncols(), |r, c| w[r] * base.y[(r, c)]);
            twin.fam = base.fam.clone();
            let fa = fit_facts(&base, true);
            let fb = fit_facts_scaled(&twin, &w, true);
            if let (Some(fa), Some(fb)) = (fa, fb) {
                let d = rel_close(&fa.params, &fb.params, t8);
                let dc = match (&fa.coeffs, &fb.coeffs) {
                    (Some(x), Some(y)) => rel_close(x.as_slice(), y.as_slice(), t8),
                    (None, None) => 0.0,
                    _ => f64::INFINITY,
                };
                let ds = match (&fa.chi2_cov, &fb.chi2_cov) {
                    (Some((c1, v1)), Some((c2, v2))) => rel_close(&[*c1], &[*c2], t8).max({
                        let sc = v1.iter().fold(0.0f64, |m, v| m.max(v.to64().abs()));
                        v1.iter().zip(v2.iter()).fold(0.0f64, |m, (x, y)| {
                            let d = (x.to64() - y.to64()).abs() / sc.max(1e-300);
                            // (a NaN on one side only must not vanish in the maximum)
                            if d.is_nan() && !(x.to64().is_nan() && y.to64().is_nan()) { f64::INFINITY } else { m.max(d) }
                        }) / t7
                    }),
                    (None, None) => 0.0,
                    _ => f64::INFINITY,
                };
                rep.check("C06", fa.ok == fb.ok && d <= 1.0 && dc <= 1.0 && ds <= 1.0, d.max(dc) * t8, || {
                    json!({"what": "whole fit / statistics: weighted problem differs from its row-scaled unweighted twin", "label": base.label,
                           "weighted": [fa.ok, fa.term, fa.nfev], "twin": [fb.ok, fb.term, fb.nfev], "dparams": d * t8, "dcoeff": dc * t8, "dstats": ds})
                });
            }
        }
        // ---- C07: permuting observation columns leaves the fitted alpha unchanged (optimizer accuracy)
        if base.y.ncols() >= 2 {
            let s = base.y.ncols();
            let mut perm = base.clone();
            perm.y = DMatrix::from_fn(base.y.nrows(), s, |r, c| base.y[(r, s - 1 - c)]);
            if let (Some(fa), Some(fb)) = (fit_facts(&base, false), fit_facts(&perm, false)) {
                let d = rel_close(&fa.params, &fb.params, t6);
                let dc = match (&fa.coeffs, &fb.coeffs) {
                    (Some(x), Some(y)) => {
                        let yp = DMatrix::from_fn(y.nrows(), y.ncols(), |r, c| y[(r, s - 1 - c)]);
                        rel_close(x.as_slice(), yp.as_slice(), t6)
                    }
                    (None, None) => 0.0,
                    _ => f64::INFINITY,
                };
                rep.check("C07", fa.ok == fb.ok && d <= 1.0 && dc <= 1.0, d.max(dc) * t6, || {
                    json!({"what": "fitted parameters / coefficients change under a permutation of the observation columns", "label": base.label, "dparams": d * t6, "dcoeff": dc * t6})
                });
            }
        }
        // ---- C05: the same observations in another unit (an exact power of two, small and large): in the
        // certified regime the minimiser is unique, so both fits succeed and return the same parameters,
        // and the coefficients carry the unit
        for up in [false, true] {
            let e: i64 = if T::NAME == "f64" { 60 } else { 30 };
            let e = if up { e } else { -e };
            let f = T::of64(f64::from_bits(((1023 + e) as u64) << 52));
            let mut twin = base.clone();
            twin.y = base.y.map(|v| v * f);
            if let (Some(fa), Some(fb)) = (fit_facts(&base, false), fit_facts(&twin, false)) {
                let d = rel_close(&fa.params, &fb.params, t6);
                let dc = match (&fa.coeffs, &fb.coeffs) {
                    (Some(x), Some(y)) => {
                        let xs: Vec<T> = x.iter().map(|v| *v * f).collect();
                        rel_close(&xs, y.as_slice(), t6)
                    }
                    (None, None) => 0.0,
                    _ => f64::INFINITY,
                };
                rep.check("C05", fa.ok && fb.ok && d <= 1.0 && dc <= 1.0, d.max(dc) * t6, || {
                    json!({"what": "the same observations in another unit (times a power of two) are fitted differently", "label": base.label, "exponent": e,
                           "unit_one": [fa.ok, fa.term, fa.nfev], "other_unit": [fb.ok, fb.term, fb.nfev], "dparams": d * t6, "dcoeff": dc * t6})
                });
                if fa.nfev == fb.nfev && fa.term == fb.term && bits_eq(&fa.params, &fb.params) {
                    rep.count("unit_twin_fit_bitwise_equal", 1);
                } else {
                    rep.count("unit_twin_fit_drift", 1);
                }
            }
        }
        // ---- C07: a one-column problem built through the multiple right hand side builder is
        // indistinguishable from the single right hand side problem - also in what a fit hands back,
        // and also when the fit does not succeed (an early end by lost patience)
        {
            let mut a = base.clone();
            a.y = DMatrix::from_fn(base.y.nrows(), 1, |r, _| base.y[(r, 0)]);
            a.mrhs = false;
            a.cfg = LmCfg { patience: [100usize, 1, 2][i % 3], ..LmCfg::default() };
            let mut b = a.clone();
            b.mrhs = true;
            if let (Some(fa), Some(fb)) = (fit_facts(&a, false), fit_facts(&b, false)) {
                let same_coeffs = match (&fa.coeffs, &fb.coeffs) {
                    (Some(x), Some(y)) => x.shape() == y.shape() && bits_eq(x.as_slice(), y.as_slice()),
                    (None, None) => true,
                    _ => false,
                };
                let same = fa.ok == fb.ok && fa.term == fb.term && fa.nfev == fb.nfev && bits_eq(&fa.params, &fb.params) && same_coeffs;
                rep.check("C07", same, 0.0, || {
                    json!({"what": "fit of a one-column multiple right hand side problem differs from the fit of the single right hand side problem", "label": base.label,
                           "patience": a.cfg.patience, "single": [fa.ok, fa.term, fa.nfev, fa.coeffs.is_some()], "mrhs": [fb.ok, fb.term, fb.nfev, fb.coeffs.is_some()]})
                });
            }
        }
        rep.count("pairs", 1);
    }
}

/// fit of the row scaled twin: the model rows are multiplied by w
fn fit_facts_scaled<T: Sc>(rs: &RunSpec<T>, w: &[T], stats: bool) -> Option<FitFacts<T>> {
    let inner = ExpModel::new(&rs.fam, &rs.x, &rs.start);
    let model = RowScaled { inner, w: w.to_vec() };
    let prob = build_problem(model, rs.mrhs, rs.par, &rs.y, None, None).ok()?;
    if stats && !rs.mrhs {
        let o = prob.fit_stats(&rs.cfg, &[], &[])?;
        Some(FitFacts {
            ok: o.fit.ok,
            term: o.fit.termination.clone(),
            nfev: o.fit.nfev,
            params: o.fit.fin.params.clone(),
            coeffs: o.fit.fin.coeffs.clone(),
            chi2_cov: o.stats.map(|s| (s.chi2, s.cov)),
        })
    } else {
        let o = prob.fit(&rs.cfg);
        Some(FitFacts {
            ok: o.ok,
            term: o.termination.clone(),
            nfev: o.nfev,
            params: o.fin.params.clone(),
            coeffs: o.fin.coeffs.clone(),
            chi2_cov: None,
        })
    }
}

// ------------------------------------------------------------------------------------------
// optimizer driven histories observed through a proxy LeastSquaresProblem (C02, C10)
// ------------------------------------------------------------------------------------------
pub fn run_proxy(count: usize) -> Report {
    let mut rep = Report::new();
    let seed = seed_from_env();
    let mut rng = StdRng::seed_from_u64(seed.wrapping_mul(6151));
    for i in 0..count {
        proxy_one::<f64>(i, &mut rng, &mut rep);
        if i % 4 == 0 {
            proxy_one::<f32>(i, &mut rng, &mut rep);
        }
    }
    rep
}

fn proxy_one<T: Sc>(i: usize, rng: &mut StdRng, rep: &mut Report) {
    let rs = if i % 3 == 2 { exp_run::<T>(i, false, rng) } else { poly_run::<T>(i, rng) };
    let Ok(prob) = make_problem(&rs, &rs.start, None) else {
        rep.tool_error(format!("proxy: cannot build {}", rs.label));
        return;
    };
    let mut events: Vec<ProxyEvent<T>> = Vec::new();
    let pool = crate::pools::pool(rs.threads.max(1));
    let (end, term, _nfev, _obj) = pool.install(|| {
        let mut obs = |e: ProxyEvent<T>| events.push(e);
        prob.minimize_observed(&rs.cfg, &mut obs)
    });
    rep.count("proxy_runs", 1);
    rep.count(&format!("proxy_term_{}", term), 1);
    let mut last_set: Option<Vec<T>> = None;
    for (k, e) in events.iter().enumerate() {
        match e {
            ProxyEvent::SetParams(p) => last_set = Some(p.clone()),
            ProxyEvent::Residuals(r, params) => {
                let det = |what: &str| json!({"label": rs.label, "event": k, "what": what, "scalar": T::NAME});
                // the parameters in effect are the ones last applied
                if let Some(ls) = &last_set {
                    rep.check("C02", bits_eq(ls, params), 0.0, || det("params() differ from the parameters last applied"));
                }
                // whatever is handed to the optimizer is what a fresh problem yields at these parameters
                let fresh = catch_unwind(AssertUnwindSafe(|| make_problem(&rs, params, None).ok().and_then(|p| p.residuals()))).unwrap_or(None);
                let good = match (r, &fresh) {
                    (Some(a), Some(b)) => close(a, b),
                    (None, None) => true,
                    _ => false,
                };
                rep.check("C02", good, 0.0, || det("residuals handed to the optimizer are not those of the parameters in effect"));
                rep.check("C10", good, 0.0, || det("state after an optimizer driven history differs from a fresh problem"));
            }
            ProxyEvent::Jacobian(j, params) => {
                let fresh = catch_unwind(AssertUnwindSafe(|| make_problem(&rs, params, None).ok().and_then(|p| p.jacobian()))).unwrap_or(None);
                let good = match (j, &fresh) {
                    (Some(a), Some(b)) => close(a.as_slice(), b.as_slice()),
                    (None, None) => true,
                    _ => false,
                };
                rep.check("C10", good, 0.0, || json!({"label": rs.label, "event": k, "what": "jacobian handed to the optimizer differs from a fresh problem's", "scalar": T::NAME}));
            }
        }
    }
    // final state coherent
    let fin = end.finish();
    if let (Some(c), Some(r)) = (&fin.coeffs, &fin.residuals) {
        let fresh = make_problem(&rs, &fin.params, None).ok();
        if let Some(f) = fresh {
            if let (Some(fc), Some(fr)) = (f.coeffs(), f.residuals()) {
                rep.check("C02", close(c.as_slice(), fc.as_slice()) && close(r, &fr), 0.0, || {
                    json!({"label": rs.label, "what": "final coefficients/residuals are not those of the final parameters", "scalar": T::NAME})
                });
            }
        }
    }
    if i % 41 == 0 {
        rep.sample(json!({"label": rs.label, "events": events.len(), "termination": term}));
    }
}
