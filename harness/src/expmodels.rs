//! Continuous model families used for real fits: exponential decays, Gaussian peak, offsets.
//! Hand written and builder made.
use crate::models::MErr;
use crate::sc::Sc;
use nalgebra::{DMatrix, DVector, Dyn, OMatrix, OVector};
use num_traits::Float;
use varpro::model::builder::error::ModelBuildError;
use varpro::model::SeparableModel;
use varpro::prelude::*;

/// (M, P) of a family
pub fn exp_shape(name: &str) -> (usize, usize) {
    match name {
        "SExpOff" => (2, 1),
        "DExp" => (2, 2),
        "DExpOff" => (3, 2),
        "TExp" => (3, 3),
        "GaussExpOff" => (3, 3),
        _ => panic!("unknown exp family {name}"),
    }
}

fn decay<T: Sc>(x: T, tau: T) -> T {
    Float::exp(-x / tau)
}
fn ddecay<T: Sc>(x: T, tau: T) -> T {
    x / (tau * tau) * Float::exp(-x / tau)
}
fn gauss<T: Sc>(x: T, mu: T, sig: T) -> T {
    let two = T::one() + T::one();
    Float::exp(-(x - mu) * (x - mu) / (two * sig * sig))
}

pub fn exp_phi<T: Sc>(name: &str, x: T, j: usize, a: &[T]) -> T {
    match (name, j) {
        ("SExpOff", 0) => decay(x, a[0]),
        ("SExpOff", _) => T::one(),
        ("DExp", 0) | ("DExpOff", 0) | ("TExp", 0) => decay(x, a[0]),
        ("DExp", _) => decay(x, a[1]),
        ("DExpOff", 1) | ("TExp", 1) => decay(x, a[1]),
        ("DExpOff", _) => T::one(),
        ("TExp", _) => decay(x, a[2]),
        ("GaussExpOff", 0) => gauss(x, a[0], a[1]),
        ("GaussExpOff", 1) => decay(x, a[2]),
        ("GaussExpOff", _) => T::one(),
        _ => panic!("unknown exp family {name}"),
    }
}
pub fn exp_dphi<T: Sc>(name: &str, x: T, j: usize, a: &[T], k: usize) -> T {
    let z = T::zero();
    match (name, j, k) {
        ("SExpOff", 0, 0) => ddecay(x, a[0]),
        ("SExpOff", _, _) => z,
        ("DExp", 0, 0) | ("DExpOff", 0, 0) | ("TExp", 0, 0) => ddecay(x, a[0]),
        ("DExp", 1, 1) | ("DExpOff", 1, 1) | ("TExp", 1, 1) => ddecay(x, a[1]),
        ("TExp", 2, 2) => ddecay(x, a[2]),
        ("DExp", _, _) | ("DExpOff", _, _) | ("TExp", _, _) => z,
        ("GaussExpOff", 0, 0) => gauss(x, a[0], a[1]) * (x - a[0]) / (a[1] * a[1]),
        ("GaussExpOff", 0, 1) => gauss(x, a[0], a[1]) * (x - a[0]) * (x - a[0]) / (a[1] * a[1] * a[1]),
        ("GaussExpOff", 1, 2) => ddecay(x, a[2]),
        ("GaussExpOff", _, _) => z,
        _ => panic!("unknown exp family {name}"),
    }
}
pub fn exp_deps(name: &str, j: usize) -> Vec<usize> {
    match (name, j) {
        ("SExpOff", 0) => vec![0],
        ("SExpOff", _) => vec![],
        ("DExp", j) => vec![j],
        ("DExpOff", 2) => vec![],
        ("DExpOff", j) => vec![j],
        ("TExp", j) => vec![j],
        ("GaussExpOff", 0) => vec![0, 1],
        ("GaussExpOff", 1) => vec![2],
        ("GaussExpOff", _) => vec![],
        _ => panic!("unknown exp family {name}"),
    }
}

#[derive(Clone, Debug)]
pub struct ExpModel<T: Sc> {
    pub name: String,
    pub x: Vec<T>,
    pub params: DVector<T>,
}
impl<T: Sc> ExpModel<T> {
    pub fn new(name: &str, x: &[T], a0: &[T]) -> Self {
        Self {
            name: name.to_string(),
            x: x.to_vec(),
            params: DVector::from_column_slice(a0),
        }
    }
}
impl<T: Sc> SeparableNonlinearModel for ExpModel<T> {
    type ScalarType = T;
    type Error = MErr;
    fn parameter_count(&self) -> usize {
        exp_shape(&self.name).1
    }
    fn base_function_count(&self) -> usize {
        exp_shape(&self.name).0
    }
    fn output_len(&self) -> usize {
        self.x.len()
    }
    fn set_params(&mut self, parameters: OVector<T, Dyn>) -> Result<(), MErr> {
        if parameters.len() != self.parameter_count() {
            return Err(MErr::Inner("parameter count".into()));
        }
        self.params = parameters;
        Ok(())
    }
    fn params(&self) -> OVector<T, Dyn> {
        self.params.clone()
    }
    fn eval(&self) -> Result<OMatrix<T, Dyn, Dyn>, MErr> {
        let (m, _) = exp_shape(&self.name);
        Ok(DMatrix::from_fn(self.x.len(), m, |i, j| exp_phi(&self.name, self.x[i], j, self.params.as_slice())))
    }
    fn eval_partial_deriv(&self, k: usize) -> Result<OMatrix<T, Dyn, Dyn>, MErr> {
        let (m, p) = exp_shape(&self.name);
        if k >= p {
            return Err(MErr::Inner("derivative index".into()));
        }
        Ok(DMatrix::from_fn(self.x.len(), m, |i, j| exp_dphi(&self.name, self.x[i], j, self.params.as_slice(), k)))
    }
}

pub fn exp_model_built<T: Sc>(name: &str, x: &[T], a0: &[T]) -> Result<SeparableModel<T>, ModelBuildError> {
    let (m, p) = exp_shape(name);
    let names: Vec<String> = (0..p).map(|k| format!("t{}", k)).collect();
    let mut b = SeparableModelBuilder::<T>::new(names.clone());
    for j in 0..m {
        let deps = exp_deps(name, j);
        let fam = name.to_string();
        match deps.len() {
            0 => {
                let f = fam.clone();
                b = b.invariant_function(move |x: &DVector<T>| x.map(|xv| exp_phi(&f, xv, j, &vec![T::one(); p])));
            }
            1 => {
                let k0 = deps[0];
                let (f1, f2) = (fam.clone(), fam.clone());
                b = b
                    .function([names[k0].clone()], move |x: &DVector<T>, q: T| {
                        let mut a = vec![T::one(); p];
                        a[k0] = q;
                        x.map(|xv| exp_phi(&f1, xv, j, &a))
                    })
                    .partial_deriv(names[k0].clone(), move |x: &DVector<T>, q: T| {
                        let mut a = vec![T::one(); p];
                        a[k0] = q;
                        x.map(|xv| exp_dphi(&f2, xv, j, &a, k0))
                    });
            }
            2 => {
                let (k0, k1) = (deps[0], deps[1]);
                let f1 = fam.clone();
                b = b.function([names[k0].clone(), names[k1].clone()], move |x: &DVector<T>, q0: T, q1: T| {
                    let mut a = vec![T::one(); p];
                    a[k0] = q0;
                    a[k1] = q1;
                    x.map(|xv| exp_phi(&f1, xv, j, &a))
                });
                for &kd in [k0, k1].iter() {
                    let f2 = fam.clone();
                    b = b.partial_deriv(names[kd].clone(), move |x: &DVector<T>, q0: T, q1: T| {
                        let mut a = vec![T::one(); p];
                        a[k0] = q0;
                        a[k1] = q1;
                        x.map(|xv| exp_dphi(&f2, xv, j, &a, kd))
                    });
                }
            }
            _ => unreachable!(),
        }
    }
    b.independent_variable(DVector::from_column_slice(x))
        .initial_parameters(a0.to_vec())
        .build()
}
