//! Beyond the listed properties: Weights / DiagMatrix algebra and BasisFunction::eval dispatch
//! (spec/VPUtil.tla).  Value mismatches support C06 (weights are row scaling) and C16 (arguments
//! dispatched in declaration order); the documented panics (dimension mismatch, wrong slice length)
//! are no listed property: deviations from them are counted and noted, never a verdict.
use crate::report::Report;
use crate::sc::Sc;
use nalgebra::{DMatrix, DVector};
use serde::Deserialize;
use serde_json::json;
use std::panic::{catch_unwind, AssertUnwindSafe};
use varpro::prelude::BasisFunction;
use varpro::util::{DiagMatrix, Weights};

#[derive(Deserialize, Debug, Clone)]
pub struct UtLine {
    pub kind: String,
    pub wlen: i64,
    pub rows: usize,
    pub cols: usize,
    pub arity: usize,
    pub slen: usize,
    pub panics: bool,
    pub size_correct: bool,
    pub result: Vec<Vec<i64>>,
    pub args: Vec<i64>,
}

macro_rules! disp {
    ($x:expr, $p:expr; $($a:ident),+) => {{
        let func = |_x: &DVector<T>, $($a: T),+| DVector::from_vec(vec![$($a),+]);
        BasisFunction::eval(&func, $x, $p)
    }};
}
fn dispatch<T: Sc>(n: usize, x: &DVector<T>, p: &[T]) -> DVector<T> {
    match n {
        1 => disp!(x, p; a1),
        2 => disp!(x, p; a1, a2),
        3 => disp!(x, p; a1, a2, a3),
        4 => disp!(x, p; a1, a2, a3, a4),
        5 => disp!(x, p; a1, a2, a3, a4, a5),
        6 => disp!(x, p; a1, a2, a3, a4, a5, a6),
        7 => disp!(x, p; a1, a2, a3, a4, a5, a6, a7),
        8 => disp!(x, p; a1, a2, a3, a4, a5, a6, a7, a8),
        9 => disp!(x, p; a1, a2, a3, a4, a5, a6, a7, a8, a9),
        10 => disp!(x, p; a1, a2, a3, a4, a5, a6, a7, a8, a9, a10),
        _ => panic!("arity"),
    }
}

fn judge<T: Sc>(idx: usize, l: &UtLine, rep: &mut Report) {
    let det = |what: &str| json!({"line": idx, "scalar": T::NAME, "kind": l.kind, "wlen": l.wlen, "rows": l.rows, "cols": l.cols, "arity": l.arity, "slen": l.slen, "what": what});
    if l.kind == "wmul" {
        let a = DMatrix::from_fn(l.rows, l.cols, |i, j| T::of64((3 * (i as i64 + 1) - 2 * (j as i64 + 1) + 1) as f64));
        let w: Weights<T, nalgebra::Dyn> = if l.wlen < 0 {
            Weights::default()
        } else {
            Weights::diagonal(DVector::from_fn(l.wlen as usize, |i, _| T::of64((i + 2) as f64)))
        };
        rep.check("C06", w.is_size_correct_for_data_length(l.rows) == l.size_correct, 0.0, || det("is_size_correct_for_data_length"));
        if l.wlen >= 0 {
            let d = DiagMatrix::from(DVector::from_fn(l.wlen as usize, |i, _| T::of64((i + 2) as f64)));
            rep.check("C06", d.size() == l.wlen as usize && d.nrows() == d.ncols(), 0.0, || det("DiagMatrix size"));
        }
        let r = catch_unwind(AssertUnwindSafe(|| &w * a.clone()));
        match r {
            Err(_) => rep.check("C06", l.panics, 0.0, || det("weights multiplication panicked although the dimensions fit")),
            Ok(m) => {
                if l.panics {
                    rep.count("documented_panic_missing", 1);
                    rep.notes.push("SPEC-DRIFT: weights multiplication with mismatching dimensions did not panic (documented behaviour, no listed property)".into());
                } else {
                    let mut ok = m.nrows() == l.rows && m.ncols() == l.cols;
                    if ok {
                        for i in 0..l.rows {
                            for j in 0..l.cols {
                                ok &= m[(i, j)].to64() == l.result[i][j] as f64;
                            }
                        }
                    }
                    rep.check("C06", ok, 0.0, || det("W*A differs from row scaling"));
                }
            }
        }
    } else {
        let x = DVector::from_element(2, T::one());
        let params: Vec<T> = (1..=l.slen).map(|i| T::of64(10.0 * i as f64)).collect();
        let r = catch_unwind(AssertUnwindSafe(|| dispatch::<T>(l.arity, &x, &params)));
        match r {
            Err(_) => rep.check("C16", l.panics, 0.0, || det("BasisFunction::eval panicked for a slice of the right length")),
            Ok(v) => {
                if l.panics {
                    rep.count("documented_panic_missing", 1);
                    rep.notes.push("SPEC-DRIFT: BasisFunction::eval accepted a slice of the wrong length (documented to panic, no listed property)".into());
                } else {
                    let got: Vec<f64> = v.iter().map(|t| t.to64()).collect();
                    let exp: Vec<f64> = l.args.iter().map(|&a| a as f64).collect();
                    rep.check("C16", got == exp, 0.0, || det("arguments not dispatched in order"));
                }
            }
        }
    }
}

pub fn run(path: &str) -> Report {
    let lines = crate::export::read_tagged(path, "VPUT");
    let mut rep = Report::new();
    for (idx, raw) in lines.iter().enumerate() {
        match serde_json::from_str::<UtLine>(raw) {
            Ok(l) => {
                judge::<f64>(idx, &l, &mut rep);
                judge::<f32>(idx, &l, &mut rep);
                rep.count("sequences", 1);
            }
            Err(e) => rep.tool_error(format!("malformed VPUT line {idx}: {e}")),
        }
    }
    rep
}
