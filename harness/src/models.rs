//! Models used to drive varpro: tabulated lattice models, polynomial families (hand written and
//! builder made), a row scaling wrapper (C06) and a recording / fault injecting wrapper (A4).
use crate::sc::Sc;
use nalgebra::{DMatrix, DVector, Dyn, OMatrix, OVector};
use std::sync::{Arc, Mutex};
use varpro::model::builder::error::ModelBuildError;
use varpro::model::SeparableModel;
use varpro::prelude::*;

#[derive(Debug, Clone, PartialEq, Eq)]
pub enum MErr {
    /// parameters are not a point of the table
    OffLattice,
    /// failure injected by the harness
    Injected(&'static str),
    /// error of a wrapped builder-made model
    Inner(String),
}
impl std::fmt::Display for MErr {
    fn fmt(&self, f: &mut std::fmt::Formatter<'_>) -> std::fmt::Result {
        write!(f, "{:?}", self)
    }
}
impl std::error::Error for MErr {}

// ------------------------------------------------------------------------------------------
// tabulated model
// ------------------------------------------------------------------------------------------
#[derive(Clone, Debug)]
pub struct TableEntry<T: Sc> {
    pub a: Vec<i64>,
    pub phi: DMatrix<T>,
    pub dphi: Vec<DMatrix<T>>,
}

#[derive(Clone, Debug)]
pub struct Table<T: Sc> {
    pub n: usize,
    pub m: usize,
    pub p: usize,
    pub entries: Vec<TableEntry<T>>,
}

impl<T: Sc> Table<T> {
    pub fn lookup(&self, params: &[T]) -> Option<&TableEntry<T>> {
        let mut key = Vec::with_capacity(params.len());
        for v in params {
            let f = v.to64();
            if !f.is_finite() || f.fract() != 0.0 || f.abs() > 1e6 {
                return None;
            }
            key.push(f as i64);
        }
        self.entries.iter().find(|e| e.a == key)
    }
    /// rows scaled by w (the C06 twin: an unweighted model that already contains the weights)
    pub fn row_scaled(&self, w: &[T]) -> Table<T> {
        let sc = |m: &DMatrix<T>| DMatrix::from_fn(m.nrows(), m.ncols(), |i, j| w[i] * m[(i, j)]);
        Table {
            n: self.n,
            m: self.m,
            p: self.p,
            entries: self
                .entries
                .iter()
                .map(|e| TableEntry {
                    a: e.a.clone(),
                    phi: sc(&e.phi),
                    dphi: e.dphi.iter().map(sc).collect(),
                })
                .collect(),
        }
    }
}

/// hand written model backed by a table
#[derive(Clone, Debug)]
pub struct TableModel<T: Sc> {
    pub table: Arc<Table<T>>,
    pub params: DVector<T>,
}

impl<T: Sc> TableModel<T> {
    pub fn new(table: Arc<Table<T>>, a0: &[i64]) -> Self {
        Self {
            table,
            params: DVector::from_iterator(a0.len(), a0.iter().map(|&v| T::of64(v as f64))),
        }
    }
}

impl<T: Sc> SeparableNonlinearModel for TableModel<T> {
    type ScalarType = T;
    type Error = MErr;
    fn parameter_count(&self) -> usize {
        self.table.p
    }
    fn base_function_count(&self) -> usize {
        self.table.m
    }
    fn output_len(&self) -> usize {
        self.table.n
    }
    fn set_params(&mut self, parameters: OVector<T, Dyn>) -> Result<(), MErr> {
        if parameters.len() != self.table.p {
            return Err(MErr::Inner("parameter count".into()));
        }
        self.params = parameters;
        Ok(())
    }
    fn params(&self) -> OVector<T, Dyn> {
        self.params.clone()
    }
    fn eval(&self) -> Result<OMatrix<T, Dyn, Dyn>, MErr> {
        self.table
            .lookup(self.params.as_slice())
            .map(|e| e.phi.clone())
            .ok_or(MErr::OffLattice)
    }
    fn eval_partial_deriv(&self, k: usize) -> Result<OMatrix<T, Dyn, Dyn>, MErr> {
        let e = self.table.lookup(self.params.as_slice()).ok_or(MErr::OffLattice)?;
        e.dphi.get(k).cloned().ok_or(MErr::Inner("derivative index".into()))
    }
}

/// the same table as a builder made model: function j takes all P model parameters; off the
/// table the closures return a vector of the wrong length (the only way a closure can fail).
pub fn table_model_built<T: Sc>(
    table: Arc<Table<T>>,
    a0: &[i64],
    reversed_args: bool,
) -> Result<SeparableModel<T>, ModelBuildError> {
    let p = table.p;
    let names: Vec<String> = (0..p).map(|k| format!("p{}", k + 1)).collect();
    let fnames: Vec<String> = if reversed_args {
        names.iter().rev().cloned().collect()
    } else {
        names.clone()
    };
    let mut b = SeparableModelBuilder::<T>::new(names.clone());
    for j in 0..table.m {
        // which: None = function value, Some(k) = derivative w.r.t. model parameter k
        let col = {
            let table = table.clone();
            move |which: Option<usize>, args: &[T]| -> DVector<T> {
                let ordered: Vec<T> = if reversed_args {
                    args.iter().rev().cloned().collect()
                } else {
                    args.to_vec()
                };
                match table.lookup(&ordered) {
                    Some(e) => match which {
                        None => e.phi.column(j).into_owned(),
                        Some(k) => e.dphi[k].column(j).into_owned(),
                    },
                    None => DVector::zeros(0),
                }
            }
        };
        macro_rules! add {
            ($($arg:ident),+) => {{
                let c = col.clone();
                b = b.function(fnames.clone(), move |_x: &DVector<T>, $($arg: T),+| c(None, &[$($arg),+]));
                for k in 0..p {
                    let c = col.clone();
                    b = b.partial_deriv(names[k].clone(), move |_x: &DVector<T>, $($arg: T),+| c(Some(k), &[$($arg),+]));
                }
            }};
        }
        match p {
            1 => add!(a1),
            2 => add!(a1, a2),
            3 => add!(a1, a2, a3),
            4 => add!(a1, a2, a3, a4),
            _ => panic!("table_model_built: unsupported P"),
        }
    }
    let x = DVector::from_iterator(table.n, (0..table.n).map(|i| T::of64(i as f64)));
    b.independent_variable(x)
        .initial_parameters(a0.iter().map(|&v| T::of64(v as f64)).collect())
        .build()
}

// ------------------------------------------------------------------------------------------
// polynomial families (must agree with spec/VPFamilies.tla; cross-checked against the export)
// ------------------------------------------------------------------------------------------
pub fn poly_is_family(name: &str) -> bool {
    matches!(
        name,
        "Q1" | "Q2" | "L2" | "S22" | "D22" | "I32" | "T13" | "C31" | "E22" | "R2" | "Z2" | "R3" | "W3"
    )
}
pub fn poly_shape(name: &str) -> (usize, usize) {
    match name {
        "Q1" => (1, 1),
        "Q2" | "L2" | "R2" | "Z2" => (2, 1),
        "S22" | "D22" | "E22" => (2, 2),
        "I32" => (3, 2),
        "T13" => (1, 2),
        "C31" | "R3" | "W3" => (3, 1),
        _ => panic!("unknown family {name}"),
    }
}
/// parameters basis function j depends on (model parameter indices, declaration order)
pub fn poly_deps(name: &str, j: usize) -> Vec<usize> {
    match (name, j) {
        ("Q1", 0) => vec![0],
        ("Q2", 0) => vec![],
        ("Q2", 1) => vec![0],
        ("L2", _) => vec![0],
        ("S22", _) => vec![0, 1],
        ("D22", 0) => vec![0],
        ("D22", 1) => vec![1],
        ("I32", 0) => vec![],
        ("I32", 1) => vec![0],
        ("I32", 2) => vec![1],
        ("T13", 0) => vec![0, 1],
        ("C31", 0) | ("C31", 1) => vec![],
        ("C31", 2) => vec![0],
        ("E22", 0) => vec![0],
        ("E22", 1) => vec![1],
        ("R2", _) => vec![0],
        ("Z2", 0) => vec![],
        ("Z2", 1) => vec![0],
        ("R3", 0) | ("W3", 0) => vec![],
        ("R3", _) | ("W3", _) => vec![0],
        _ => panic!("unknown family/function {name}/{j}"),
    }
}
pub fn poly_phi<T: Sc>(name: &str, x: T, j: usize, a: &[T]) -> T {
    let one = T::one();
    let two = one + one;
    match name {
        "Q1" => (x - a[0]) * (x - a[0]),
        "Q2" => {
            if j == 0 {
                one
            } else {
                (x - a[0]) * (x - a[0])
            }
        }
        "L2" => {
            if j == 0 {
                x + a[0]
            } else {
                a[0] * x - one
            }
        }
        "S22" => {
            if j == 0 {
                a[0] * x + a[1]
            } else {
                (x - a[0]) * (x - a[1])
            }
        }
        "D22" => {
            if j == 0 {
                (x - a[0]) * (x - a[0])
            } else {
                (x + a[1]) * (x + a[1])
            }
        }
        "I32" => match j {
            0 => one,
            1 => (x - a[0]) * (x - a[0]),
            _ => a[1] * x,
        },
        "T13" => (x - a[0]) * (x + a[1]),
        "C31" => match j {
            0 => one,
            1 => x,
            _ => (x - a[0]) * (x - a[0]) * (x - a[0]),
        },
        "E22" => {
            if j == 0 {
                (x - a[0]) * (x - a[0])
            } else {
                (x - a[1]) * (x - a[1]) * (x - a[1])
            }
        }
        "R2" => {
            if j == 0 {
                x + a[0]
            } else {
                two * (x + a[0])
            }
        }
        "Z2" => {
            if j == 0 {
                one
            } else {
                a[0] * x
            }
        }
        "R3" => match j {
            0 => one,
            1 => x - a[0],
            _ => x - a[0] + one,
        },
        "W3" => match j {
            0 => one,
            1 => x - a[0],
            _ => (x - a[0]) * (x - a[0]),
        },
        _ => panic!("unknown family {name}"),
    }
}
pub fn poly_dphi<T: Sc>(name: &str, x: T, j: usize, a: &[T], k: usize) -> T {
    let zero = T::zero();
    let one = T::one();
    let two = one + one;
    let three = two + one;
    match name {
        "Q1" => -two * (x - a[0]),
        "Q2" => {
            if j == 0 {
                zero
            } else {
                -two * (x - a[0])
            }
        }
        "L2" => {
            if j == 0 {
                one
            } else {
                x
            }
        }
        "S22" => match (k, j) {
            (0, 0) => x,
            (0, _) => -(x - a[1]),
            (_, 0) => one,
            (_, _) => -(x - a[0]),
        },
        "D22" => match (k, j) {
            (0, 0) => -two * (x - a[0]),
            (1, 1) => two * (x + a[1]),
            _ => zero,
        },
        "I32" => match (k, j) {
            (0, 1) => -two * (x - a[0]),
            (1, 2) => x,
            _ => zero,
        },
        "T13" => {
            if k == 0 {
                -(x + a[1])
            } else {
                x - a[0]
            }
        }
        "C31" => {
            if j == 2 {
                -three * (x - a[0]) * (x - a[0])
            } else {
                zero
            }
        }
        "E22" => match (k, j) {
            (0, 0) => -two * (x - a[0]),
            (1, 1) => -three * (x - a[1]) * (x - a[1]),
            _ => zero,
        },
        "R2" => {
            if j == 0 {
                one
            } else {
                two
            }
        }
        "Z2" => {
            if j == 0 {
                zero
            } else {
                x
            }
        }
        "R3" => {
            if j == 0 {
                zero
            } else {
                -one
            }
        }
        "W3" => match j {
            0 => zero,
            1 => -one,
            _ => -two * (x - a[0]),
        },
        _ => panic!("unknown family {name}"),
    }
}

/// hand written polynomial model
#[derive(Clone, Debug)]
pub struct PolyModel<T: Sc> {
    pub name: String,
    pub x: Vec<T>,
    pub params: DVector<T>,
}
impl<T: Sc> PolyModel<T> {
    pub fn new(name: &str, x: &[T], a0: &[T]) -> Self {
        Self {
            name: name.to_string(),
            x: x.to_vec(),
            params: DVector::from_column_slice(a0),
        }
    }
}
impl<T: Sc> SeparableNonlinearModel for PolyModel<T> {
    type ScalarType = T;
    type Error = MErr;
    fn parameter_count(&self) -> usize {
        poly_shape(&self.name).1
    }
    fn base_function_count(&self) -> usize {
        poly_shape(&self.name).0
    }
    fn output_len(&self) -> usize {
        self.x.len()
    }
    fn set_params(&mut self, parameters: OVector<T, Dyn>) -> Result<(), MErr> {
        if parameters.len() != self.parameter_count() {
            return Err(MErr::Inner("parameter count".into()));
        }
        self.params = parameters;
        Ok(())
    }
    fn params(&self) -> OVector<T, Dyn> {
        self.params.clone()
    }
    fn eval(&self) -> Result<OMatrix<T, Dyn, Dyn>, MErr> {
        let (m, _) = poly_shape(&self.name);
        Ok(DMatrix::from_fn(self.x.len(), m, |i, j| {
            poly_phi(&self.name, self.x[i], j, self.params.as_slice())
        }))
    }
    fn eval_partial_deriv(&self, k: usize) -> Result<OMatrix<T, Dyn, Dyn>, MErr> {
        let (m, p) = poly_shape(&self.name);
        if k >= p {
            return Err(MErr::Inner("derivative index".into()));
        }
        Ok(DMatrix::from_fn(self.x.len(), m, |i, j| {
            poly_dphi(&self.name, self.x[i], j, self.params.as_slice(), k)
        }))
    }
}

/// the same family through SeparableModelBuilder with the natural parameter subsets; with
/// `reversed` two-parameter functions declare their parameters in reversed order
pub fn poly_model_built<T: Sc>(
    name: &str,
    x: &[T],
    a0: &[T],
    reversed: bool,
) -> Result<SeparableModel<T>, ModelBuildError> {
    let (m, p) = poly_shape(name);
    let names: Vec<String> = (0..p).map(|k| format!("q{}", k)).collect();
    let mut b = SeparableModelBuilder::<T>::new(names.clone());
    for j in 0..m {
        let deps = poly_deps(name, j);
        let fam = name.to_string();
        match deps.len() {
            0 => {
                let fam = fam.clone();
                b = b.invariant_function(move |x: &DVector<T>| {
                    x.map(|xv| poly_phi(&fam, xv, j, &vec![T::zero(); p]))
                });
            }
            1 => {
                let k0 = deps[0];
                let f1 = fam.clone();
                let f2 = fam.clone();
                b = b
                    .function([names[k0].clone()], move |x: &DVector<T>, q: T| {
                        let mut a = vec![T::zero(); p];
                        a[k0] = q;
                        x.map(|xv| poly_phi(&f1, xv, j, &a))
                    })
                    .partial_deriv(names[k0].clone(), move |x: &DVector<T>, q: T| {
                        let mut a = vec![T::zero(); p];
                        a[k0] = q;
                        x.map(|xv| poly_dphi(&f2, xv, j, &a, k0))
                    });
            }
            2 => {
                let (k0, k1) = if reversed { (deps[1], deps[0]) } else { (deps[0], deps[1]) };
                let f1 = fam.clone();
                b = b.function(
                    [names[k0].clone(), names[k1].clone()],
                    move |x: &DVector<T>, q0: T, q1: T| {
                        let mut a = vec![T::zero(); p];
                        a[k0] = q0;
                        a[k1] = q1;
                        x.map(|xv| poly_phi(&f1, xv, j, &a))
                    },
                );
                // derivatives supplied in the opposite order of the declaration
                for &kd in [k1, k0].iter() {
                    let f2 = fam.clone();
                    b = b.partial_deriv(names[kd].clone(), move |x: &DVector<T>, q0: T, q1: T| {
                        let mut a = vec![T::zero(); p];
                        a[k0] = q0;
                        a[k1] = q1;
                        x.map(|xv| poly_dphi(&f2, xv, j, &a, kd))
                    });
                }
            }
            _ => unreachable!(),
        }
    }
    b.independent_variable(DVector::from_column_slice(x))
        .initial_parameters(a0.to_vec())
        .build()
}

// ------------------------------------------------------------------------------------------
// row scaling wrapper: an unweighted model whose rows already carry the weights (C06)
// ------------------------------------------------------------------------------------------
#[derive(Clone)]
pub struct RowScaled<M: SeparableNonlinearModel> {
    pub inner: M,
    pub w: Vec<M::ScalarType>,
}
impl<M> SeparableNonlinearModel for RowScaled<M>
where
    M: SeparableNonlinearModel,
    M::ScalarType: Sc,
{
    type ScalarType = M::ScalarType;
    type Error = M::Error;
    fn parameter_count(&self) -> usize {
        self.inner.parameter_count()
    }
    fn base_function_count(&self) -> usize {
        self.inner.base_function_count()
    }
    fn output_len(&self) -> usize {
        self.inner.output_len()
    }
    fn set_params(&mut self, parameters: OVector<Self::ScalarType, Dyn>) -> Result<(), Self::Error> {
        self.inner.set_params(parameters)
    }
    fn params(&self) -> OVector<Self::ScalarType, Dyn> {
        self.inner.params()
    }
    fn eval(&self) -> Result<OMatrix<Self::ScalarType, Dyn, Dyn>, Self::Error> {
        let mut m = self.inner.eval()?;
        for (i, mut row) in m.row_iter_mut().enumerate() {
            row *= self.w[i];
        }
        Ok(m)
    }
    fn eval_partial_deriv(&self, k: usize) -> Result<OMatrix<Self::ScalarType, Dyn, Dyn>, Self::Error> {
        let mut m = self.inner.eval_partial_deriv(k)?;
        for (i, mut row) in m.row_iter_mut().enumerate() {
            row *= self.w[i];
        }
        Ok(m)
    }
}

// ------------------------------------------------------------------------------------------
// recorder with fault injection
// ------------------------------------------------------------------------------------------
#[derive(Clone, Debug, PartialEq)]
pub enum Call {
    Set,
    Eval,
    Deriv(usize),
}
#[derive(Clone, Debug)]
pub struct Event {
    pub seq: usize,
    pub tid: u64,
    pub call: Call,
    /// parameter vector involved (for Set: the argument; otherwise the model's current one), as bits
    pub pbits: Vec<u64>,
    pub ok: bool,
    /// phase marker: true for the begin event of a derivative call (parallel traces)
    pub begin: bool,
}
#[derive(Debug, Default)]
pub struct Log {
    pub events: Vec<Event>,
    pub calls: usize,
    /// fail model call number `at` (0-based, counted over set/eval/deriv); persistent: all calls >= at fail
    pub fail_at: Option<usize>,
    pub persistent: bool,
    pub paused: bool,
    /// record begin events for derivative calls as well
    pub begins: bool,
    /// seeded delay pattern for derivative calls (micro seconds per k), to permute completion order
    pub delays_us: Vec<u64>,
}
pub type SharedLog = Arc<Mutex<Log>>;
pub fn new_log() -> SharedLog {
    Arc::new(Mutex::new(Log::default()))
}
fn tid() -> u64 {
    // a stable small number per thread
    use std::cell::Cell;
    use std::sync::atomic::{AtomicU64, Ordering};
    static NEXT: AtomicU64 = AtomicU64::new(1);
    thread_local! { static ID: Cell<u64> = const { Cell::new(0) }; }
    ID.with(|c| {
        if c.get() == 0 {
            c.set(NEXT.fetch_add(1, Ordering::Relaxed));
        }
        c.get()
    })
}

#[derive(Clone)]
pub struct Rec<M: SeparableNonlinearModel> {
    pub inner: M,
    pub log: SharedLog,
}
impl<M> Rec<M>
where
    M: SeparableNonlinearModel,
    M::ScalarType: Sc,
{
    pub fn new(inner: M, log: SharedLog) -> Self {
        Self { inner, log }
    }
    /// decide whether this call is to fail; returns (fail, paused)
    fn tick(&self) -> (bool, bool) {
        let mut l = self.log.lock().unwrap();
        if l.paused {
            return (false, true);
        }
        let n = l.calls;
        l.calls += 1;
        let fail = match l.fail_at {
            Some(at) => {
                if l.persistent {
                    n >= at
                } else {
                    n == at
                }
            }
            None => false,
        };
        (fail, false)
    }
    fn push(&self, call: Call, pbits: Vec<u64>, ok: bool, begin: bool) {
        let mut l = self.log.lock().unwrap();
        if l.paused {
            return;
        }
        let seq = l.events.len();
        l.events.push(Event {
            seq,
            tid: tid(),
            call,
            pbits,
            ok,
            begin,
        });
    }
    fn cur_bits(&self) -> Vec<u64> {
        self.inner.params().iter().map(|v| v.bits()).collect()
    }
}
impl<M> SeparableNonlinearModel for Rec<M>
where
    M: SeparableNonlinearModel,
    M::ScalarType: Sc,
{
    type ScalarType = M::ScalarType;
    type Error = MErr;
    fn parameter_count(&self) -> usize {
        self.inner.parameter_count()
    }
    fn base_function_count(&self) -> usize {
        self.inner.base_function_count()
    }
    fn output_len(&self) -> usize {
        self.inner.output_len()
    }
    fn set_params(&mut self, parameters: OVector<Self::ScalarType, Dyn>) -> Result<(), MErr> {
        let (fail, paused) = self.tick();
        let bits: Vec<u64> = parameters.iter().map(|v| v.bits()).collect();
        let r = if fail {
            Err(MErr::Injected("set_params"))
        } else {
            self.inner.set_params(parameters).map_err(|e| MErr::Inner(e.to_string()))
        };
        if !paused {
            self.push(Call::Set, bits, r.is_ok(), false);
        }
        r
    }
    fn params(&self) -> OVector<Self::ScalarType, Dyn> {
        self.inner.params()
    }
    fn eval(&self) -> Result<OMatrix<Self::ScalarType, Dyn, Dyn>, MErr> {
        let (fail, paused) = self.tick();
        let r = if fail {
            Err(MErr::Injected("eval"))
        } else {
            self.inner.eval().map_err(|e| MErr::Inner(e.to_string()))
        };
        if !paused {
            // "ok" of an evaluation event = the model handed back a USABLE basis matrix: no error and
            // every value finite.  A matrix with a non-finite value is an evaluation the problem cannot
            // use (it exposes nothing for it, like after an error); the specification's TrialEval(ok)
            // branches on exactly that.
            let usable = match &r {
                Ok(m) => m.iter().all(|v| v.to64().is_finite()),
                Err(_) => false,
            };
            self.push(Call::Eval, self.cur_bits(), usable, false);
        }
        r
    }
    fn eval_partial_deriv(&self, k: usize) -> Result<OMatrix<Self::ScalarType, Dyn, Dyn>, MErr> {
        let (fail, paused) = self.tick();
        let (begins, delay) = {
            let l = self.log.lock().unwrap();
            (l.begins, l.delays_us.get(k).cloned().unwrap_or(0))
        };
        if begins && !paused {
            self.push(Call::Deriv(k), self.cur_bits(), true, true);
        }
        if delay > 0 {
            std::thread::sleep(std::time::Duration::from_micros(delay));
        }
        let r = if fail {
            Err(MErr::Injected("eval_partial_deriv"))
        } else {
            self.inner.eval_partial_deriv(k).map_err(|e| MErr::Inner(e.to_string()))
        };
        if !paused {
            self.push(Call::Deriv(k), self.cur_bits(), r.is_ok(), false);
        }
        r
    }
}


/// A model whose (finite) values depend on the SIGN of a zero parameter: column 0 is
/// sign(a)·(i+1) with sign(+0.0) = +1 and sign(-0.0) = -1, column 1 is constant.  +0.0 and -0.0
/// are different parameter vectors for it although they compare equal.
#[derive(Clone, Debug)]
pub struct SignModel<T: Sc> {
    pub n: usize,
    pub params: DVector<T>,
}
impl<T: Sc> SignModel<T> {
    pub fn new(n: usize, a: T) -> Self {
        Self { n, params: DVector::from_element(1, a) }
    }
}
impl<T: Sc> SeparableNonlinearModel for SignModel<T> {
    type ScalarType = T;
    type Error = MErr;
    fn parameter_count(&self) -> usize {
        1
    }
    fn base_function_count(&self) -> usize {
        2
    }
    fn output_len(&self) -> usize {
        self.n
    }
    fn set_params(&mut self, parameters: OVector<T, Dyn>) -> Result<(), MErr> {
        if parameters.len() != 1 {
            return Err(MErr::Inner("parameter count".into()));
        }
        self.params = parameters;
        Ok(())
    }
    fn params(&self) -> OVector<T, Dyn> {
        self.params.clone()
    }
    fn eval(&self) -> Result<OMatrix<T, Dyn, Dyn>, MErr> {
        let s = if self.params[0].to64().is_sign_negative() { -1.0 } else { 1.0 };
        Ok(DMatrix::from_fn(self.n, 2, |i, j| if j == 0 { T::of64(s * (i as f64 + 1.0)) } else { T::one() }))
    }
    fn eval_partial_deriv(&self, k: usize) -> Result<OMatrix<T, Dyn, Dyn>, MErr> {
        if k != 0 {
            return Err(MErr::Inner("derivative index".into()));
        }
        Ok(DMatrix::from_element(self.n, 2, T::zero()))
    }
}


/// Truncated Fourier series with a nonlinear fundamental frequency: 1, cos(k w x), sin(k w x),
/// k = 1..H  (M = 2H+1 well conditioned basis functions on irregular sampling, P = 1).
#[derive(Clone, Debug)]
pub struct FourierModel<T: Sc> {
    pub x: Vec<f64>,
    pub h: usize,
    pub params: DVector<T>,
}
impl<T: Sc> FourierModel<T> {
    pub fn new(n: usize, h: usize, w: f64) -> Self {
        let x = (0..n).map(|i| 0.07 * (i as f64 + 0.37 * (i as f64 * 1.3).sin())).collect();
        Self { x, h, params: DVector::from_element(1, T::of64(w)) }
    }
    pub fn phi64(&self, w: f64) -> DMatrix<f64> {
        DMatrix::from_fn(self.x.len(), 2 * self.h + 1, |i, j| {
            if j == 0 {
                1.0
            } else {
                let k = ((j + 1) / 2) as f64;
                if j % 2 == 1 { (k * w * self.x[i]).cos() } else { (k * w * self.x[i]).sin() }
            }
        })
    }
}
impl<T: Sc> SeparableNonlinearModel for FourierModel<T> {
    type ScalarType = T;
    type Error = MErr;
    fn parameter_count(&self) -> usize {
        1
    }
    fn base_function_count(&self) -> usize {
        2 * self.h + 1
    }
    fn output_len(&self) -> usize {
        self.x.len()
    }
    fn set_params(&mut self, parameters: OVector<T, Dyn>) -> Result<(), MErr> {
        if parameters.len() != 1 {
            return Err(MErr::Inner("parameter count".into()));
        }
        self.params = parameters;
        Ok(())
    }
    fn params(&self) -> OVector<T, Dyn> {
        self.params.clone()
    }
    fn eval(&self) -> Result<OMatrix<T, Dyn, Dyn>, MErr> {
        let p = self.phi64(self.params[0].to64());
        Ok(DMatrix::from_fn(p.nrows(), p.ncols(), |i, j| T::of64(p[(i, j)])))
    }
    fn eval_partial_deriv(&self, k: usize) -> Result<OMatrix<T, Dyn, Dyn>, MErr> {
        if k != 0 {
            return Err(MErr::Inner("derivative index".into()));
        }
        let w = self.params[0].to64();
        Ok(DMatrix::from_fn(self.x.len(), 2 * self.h + 1, |i, j| {
            if j == 0 {
                T::zero()
            } else {
                let kk = ((j + 1) / 2) as f64;
                let xi = self.x[i];
                T::of64(if j % 2 == 1 { -kk * xi * (kk * w * xi).sin() } else { kk * xi * (kk * w * xi).cos() })
            }
        }))
    }
}


/// M = P well separated bumps exp(-a_k (x - c_k)^2), one nonlinear parameter (width) each: many
/// parameters, well conditioned
#[derive(Clone, Debug)]
pub struct RationalModel<T: Sc> {
    pub x: Vec<f64>,
    pub params: DVector<T>,
}
impl<T: Sc> RationalModel<T> {
    pub fn new(n: usize, a: &[f64]) -> Self {
        Self { x: (0..n).map(|i| 0.25 + 0.5 * i as f64).collect(), params: DVector::from_iterator(a.len(), a.iter().map(|&v| T::of64(v))) }
    }
    /// centre of bump k: spread evenly over the sample range
    fn centre(&self, k: usize, p: usize) -> f64 {
        let xmax = self.x.last().copied().unwrap_or(1.0);
        (k as f64 + 0.5) * xmax / p as f64
    }
    pub fn phi64(&self, a: &[f64]) -> DMatrix<f64> {
        DMatrix::from_fn(self.x.len(), a.len(), |i, k| (-a[k] * (self.x[i] - self.centre(k, a.len())).powi(2)).exp())
    }
}
impl<T: Sc> SeparableNonlinearModel for RationalModel<T> {
    type ScalarType = T;
    type Error = MErr;
    fn parameter_count(&self) -> usize {
        self.params.len()
    }
    fn base_function_count(&self) -> usize {
        self.params.len()
    }
    fn output_len(&self) -> usize {
        self.x.len()
    }
    fn set_params(&mut self, parameters: OVector<T, Dyn>) -> Result<(), MErr> {
        if parameters.len() != self.params.len() {
            return Err(MErr::Inner("parameter count".into()));
        }
        self.params = parameters;
        Ok(())
    }
    fn params(&self) -> OVector<T, Dyn> {
        self.params.clone()
    }
    fn eval(&self) -> Result<OMatrix<T, Dyn, Dyn>, MErr> {
        let a: Vec<f64> = self.params.iter().map(|v| v.to64()).collect();
        let p = self.phi64(&a);
        Ok(DMatrix::from_fn(p.nrows(), p.ncols(), |i, j| T::of64(p[(i, j)])))
    }
    fn eval_partial_deriv(&self, k: usize) -> Result<OMatrix<T, Dyn, Dyn>, MErr> {
        if k >= self.params.len() {
            return Err(MErr::Inner("derivative index".into()));
        }
        let ak = self.params[k].to64();
        let c = self.centre(k, self.params.len());
        Ok(DMatrix::from_fn(self.x.len(), self.params.len(), |i, j| {
            if j == k {
                let d2 = (self.x[i] - c).powi(2);
                T::of64(-d2 * (-ak * d2).exp())
            } else {
                T::zero()
            }
        }))
    }
}
