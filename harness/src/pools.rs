//! Shared rayon thread pools, one per size, created on first use (creating a pool per scenario
//! exhausts the process's memory mappings on long runs).
use std::collections::HashMap;
use std::sync::{Mutex, OnceLock};

static POOLS: OnceLock<Mutex<HashMap<usize, &'static rayon::ThreadPool>>> = OnceLock::new();

pub fn pool(n: usize) -> &'static rayon::ThreadPool {
    let n = n.max(1);
    let m = POOLS.get_or_init(|| Mutex::new(HashMap::new()));
    let mut g = m.lock().unwrap();
    g.entry(n).or_insert_with(|| {
        let p = rayon::ThreadPoolBuilder::new().num_threads(n).stack_size(1 << 27).build().expect("thread pool");
        Box::leak(Box::new(p))
    })
}
