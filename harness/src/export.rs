//! Reading what TLC exported: lines of the form  <<"TAG", "{...json...}">>
use std::io::{BufRead, BufReader};

pub fn read_tagged(path: &str, tag: &str) -> Vec<String> {
    let f = std::fs::File::open(path).unwrap_or_else(|e| panic!("cannot open {path}: {e}"));
    let prefix = format!("<<\"{}\", \"", tag);
    let mut out = Vec::new();
    for line in BufReader::new(f).lines() {
        let line = line.expect("read");
        if let Some(rest) = line.strip_prefix(&prefix) {
            if let Some(body) = rest.strip_suffix("\">>") {
                out.push(body.replace("\\\"", "\"").replace("\\\\", "\\"));
            }
        } else if line.starts_with('{') {
            // already stripped (replay files)
            out.push(line);
        }
    }
    out
}
