fn main() { println!("vph"); }
