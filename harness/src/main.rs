mod expmodels;
mod c08;
mod export;
mod fittrace;
mod history;
mod lattice;
mod mbuilder;
mod pbuilder;
mod models;
mod parjac;
mod pools;
mod prob;
mod report;
mod sc;
mod stationary;
mod threshold;
mod vmodel;
mod vutil;

/// Global allocator that fills every fresh allocation with a poison pattern (VPH_POISON=1|2),
/// so that a returned matrix element that was never written shows up as garbage (C10).
struct Poison;
pub static POISON_MODE: std::sync::atomic::AtomicU8 = std::sync::atomic::AtomicU8::new(0);
unsafe impl std::alloc::GlobalAlloc for Poison {
    unsafe fn alloc(&self, layout: std::alloc::Layout) -> *mut u8 {
        let p = std::alloc::System.alloc(layout);
        let mode = POISON_MODE.load(std::sync::atomic::Ordering::Relaxed);
        if !p.is_null() && mode != 0 {
            // pattern 1: 0x5A bytes (a huge finite number as f64/f32); pattern 2: 0xFF bytes (NaN)
            let byte = if mode == 1 { 0x5A } else { 0xFF };
            std::ptr::write_bytes(p, byte, layout.size());
        }
        p
    }
    unsafe fn dealloc(&self, ptr: *mut u8, layout: std::alloc::Layout) {
        std::alloc::System.dealloc(ptr, layout)
    }
}
#[global_allocator]
static GLOBAL: Poison = Poison;

fn arg_after(args: &[String], key: &str) -> Option<String> {
    args.iter().position(|a| a == key).and_then(|i| args.get(i + 1).cloned())
}

fn main() {
    let args: Vec<String> = std::env::args().collect();
    if args.len() < 2 {
        eprintln!("usage: vph <subcommand> ...");
        std::process::exit(2);
    }
    if let Ok(m) = std::env::var("VPH_POISON") {
        POISON_MODE.store(m.parse().unwrap_or(0), std::sync::atomic::Ordering::Relaxed);
    }
    // nested pool.install calls let a blocked worker steal further jobs on the same stack: give the
    // workers room (virtual memory only)
    let _ = rayon::ThreadPoolBuilder::new().stack_size(1 << 29).build_global();
    // panics inside code under test are data; keep the default hook quiet
    if std::env::var("VPH_PANIC_VERBOSE").is_err() {
        std::panic::set_hook(Box::new(|_| {}));
    }
    let rep = match args[1].as_str() {
        "lattice" => {
            let path = args.get(2).expect("export file");
            let opts = lattice::Opts {
                only_f64: args.iter().any(|a| a == "--only-f64"),
                replay_flavour: arg_after(&args, "--flavour"),
            };
            lattice::run(path, &opts)
        }
        "probes" => lattice::probes(),
        "fittrace" => {
            let mode = args.get(2).expect("mode");
            let out = args.get(3).expect("output file");
            let count: usize = args.get(4).map(|s| s.parse().expect("count")).unwrap_or(100);
            fittrace::run(mode, out, count)
        }
        "c08child" => {
            let path = args.get(2).expect("scenario file");
            let from: usize = args.get(3).expect("from").parse().unwrap();
            let to: usize = args.get(4).expect("to").parse().unwrap();
            c08::child(path, from, to);
            return;
        }
        "c08" => {
            let path = args.get(2).expect("export file");
            let stride: usize = args.get(3).map(|s| s.parse().unwrap()).unwrap_or(8);
            let fits: usize = args.get(4).map(|s| s.parse().unwrap()).unwrap_or(300);
            let timeout: u64 = args.get(5).map(|s| s.parse().unwrap()).unwrap_or(20);
            c08::run(path, stride, fits, timeout)
        }
        "svdcheck" => {
            // reproduces known finding D4 (upstream nalgebra SVD inaccuracy) on its listed example matrices
            use nalgebra::DMatrix;
            let mats: Vec<(&str, DMatrix<f64>)> = vec![
                ("3x3 nearly equal singular values", DMatrix::from_row_slice(3, 3, &[4., -1., 1., 1., 4., -2., 2., 1., 1.])),
                ("5x2 rank one", DMatrix::from_row_slice(5, 2, &[-1., -2., -2., -4., -2., -4., 1., 2., 2., 4.])),
            ];
            let mut rep = report::Report::new();
            for (name, m) in mats {
                let svd = nalgebra::SVD::new(m.clone(), true, true);
                let rec = svd.u.as_ref().unwrap() * DMatrix::from_diagonal(&svd.singular_values) * svd.v_t.as_ref().unwrap();
                let err = (rec - &m).iter().fold(0.0f64, |a, v| a.max(v.abs()));
                rep.notes.push(format!("{name}: singular values {:?} reconstruction error {err:e}", svd.singular_values.as_slice()));
            }
            rep
        }
        "proxy" => fittrace::run_proxy(args.get(2).map(|s| s.parse().unwrap()).unwrap_or(100)),
        "pairs" => fittrace::run_pairs(args.get(2).map(|s| s.parse().unwrap()).unwrap_or(100)),
        "parjac" => {
            let prefix = args.get(2).expect("output prefix");
            let count: usize = args.get(3).map(|s| s.parse().unwrap()).unwrap_or(60);
            parjac::run(prefix, count)
        }
        "util" => vutil::run(args.get(2).expect("export file")),
        "threshold" => threshold::run(args.get(2).expect("export file")),
        "history" => history::run(args.get(2).expect("export file")),
        "stationary" => stationary::run(args.get(2).expect("export file")),
        "model" => vmodel::run(args.get(2).expect("export file")),
        "pbuilder" => pbuilder::run(args.get(2).expect("export file")),
        "mbuilder" => mbuilder::run(args.get(2).expect("export file")),
        other => {
            eprintln!("unknown subcommand {other}");
            std::process::exit(2);
        }
    };
    println!("{}", serde_json::to_string(&rep.to_json()).unwrap());
}
