//! C18: replay of every LevMarProblemBuilder call sequence enumerated by
//! spec/VPProblemBuilder.tla, in the four constructor flavours and both scalar types.
use crate::lattice::Line;
use crate::models::*;
use crate::prob::*;
use crate::report::Report;
use crate::sc::*;
use nalgebra::DMatrix;
use rayon::prelude::*;
use serde::Deserialize;
use serde_json::json;
use std::panic::{catch_unwind, AssertUnwindSafe};
use std::sync::Arc;

#[derive(Deserialize, Debug, Clone)]
pub struct PbLine {
    #[serde(rename = "L")]
    pub l: usize,
    pub mrhs: bool,
    pub c: Vec<(String, i64, i64)>,
    pub v: bool,
    pub d: Vec<String>,
    pub i: String,
    pub line: Vec<Line>,
}

fn orth_table<T: Sc>(l: usize) -> Arc<Table<T>> {
    let m = if l >= 2 { 2 } else { 1 };
    let phi = DMatrix::from_fn(l, m, |i, j| if i == j { T::of64((j + 1) as f64) } else { T::zero() });
    let dphi = DMatrix::from_element(l, m, T::zero());
    Arc::new(Table {
        n: l,
        m,
        p: 1,
        entries: vec![TableEntry {
            a: vec![0],
            phi,
            dphi: vec![dphi],
        }],
    })
}

fn kind_name(e: &BuildErr) -> &'static str {
    match e {
        BuildErr::YDataMissing => "YDataMissing",
        BuildErr::InvalidLengthOfData => "InvalidLengthOfData",
        BuildErr::ZeroLengthVector => "ZeroLengthVector",
        BuildErr::InvalidParameterCount => "InvalidParameterCount",
        BuildErr::InvalidLengthOfWeights => "InvalidLengthOfWeights",
    }
}

fn judge<T: Sc>(idx: usize, l: &PbLine, par: bool, rep: &mut Report) {
    let table = orth_table::<T>(l.l);
    // the spec's expectation uses the data of the LAST call of each kind
    let last = |k: &str| l.c.iter().rposition(|c| c.0 == k);
    let (lo, lw, le) = (last("O"), last("W"), last("E"));
    let w_present = lw.is_some();
    let mut calls: Vec<BCall<T>> = Vec::new();
    for (pos, (op, p1, p2)) in l.c.iter().enumerate() {
        match op.as_str() {
            "O" => {
                let (r, c) = (*p1 as usize, *p2 as usize);
                let m = if Some(pos) == lo {
                    DMatrix::from_fn(r, c, |i, s| T::of64((((i + 1) * (i + 1) + (s + 1)) % 4) as f64 - 1.0))
                } else {
                    DMatrix::from_element(r, c, T::of64(9.0))
                };
                calls.push(BCall::Observations(m));
            }
            "W" => {
                // (the last call: +-2 with alternating signs, as VPProblemBuilder!WData; earlier calls: 3)
                let wv: Vec<T> = (0..*p1 as usize).map(|i| T::of64(if Some(pos) == lw { if i % 2 == 1 { -2.0 } else { 2.0 } } else { 3.0 })).collect();
                calls.push(BCall::Weights(wv));
            }
            "E" => {
                let mag = if Some(pos) == le {
                    if *p1 == 0 {
                        1e-6
                    } else if w_present {
                        8.5f64.sqrt()
                    } else {
                        2.5f64.sqrt()
                    }
                } else {
                    100.0
                };
                let sgn = if *p2 == 1 { -1.0 } else { 1.0 };
                calls.push(BCall::Epsilon(T::of64(sgn * mag)));
            }
            other => panic!("unknown call {other}"),
        }
    }
    let flav = format!("line={} L={} mrhs={} par={} {}", idx, l.l, l.mrhs, par, T::NAME);
    let det = |what: &str, got: &str| json!({"flavour": flav, "calls": l.c, "what": what, "got": got, "valid": l.v, "defects": l.d});
    let model = TableModel::new(table, &[0]);
    let r = catch_unwind(AssertUnwindSafe(|| {
        let r = build_with_calls(model, l.mrhs, par, &calls);
        // observe inside the guard: a build that succeeds wrongly may panic on first use
        r.map(|p| (p.params(), p.coeffs(), p.residuals(), p.weighted_data(), p.is_mrhs(), p.is_par()))
    }));
    match r {
        Err(_) => rep.violation("C18", det("builder or freshly built problem panicked", "panic")),
        Ok(Err(e)) => {
            let k = kind_name(&e);
            if l.v {
                rep.violation("C18", det("build() failed on consistent inputs", k));
            } else if !l.d.iter().any(|d| d == k) {
                rep.violation("C18", det("error does not name a violated requirement", k));
            } else {
                rep.ok("C18", 0.0);
            }
            if k != l.i {
                rep.count("spec_drift", 1);
            }
        }
        Ok(Ok((params, coeffs, resid, yw, is_mrhs, is_par))) => {
            if !l.v {
                rep.violation("C18", det("build() succeeded on inconsistent inputs", "Ok"));
                return;
            }
            rep.ok("C18", 0.0);
            rep.check("C18", is_mrhs == l.mrhs && is_par == par, 0.0, || det("constructor flavour", "flags"));
            let exp = &l.line[0];
            let pt = &exp.pts[0];
            // starts at the model's alpha
            let pexp: Vec<f64> = pt.a.iter().map(|&v| v as f64).collect();
            let pgot: Vec<f64> = params.iter().map(|v| v.to64()).collect();
            rep.check("C18", pexp == pgot, 0.0, || det("problem does not report the model's initial parameters", "params"));
            // weighted data
            let mut ok = yw.nrows() == exp.yw.len();
            if ok {
                for i in 0..yw.nrows() {
                    for s in 0..yw.ncols() {
                        ok &= yw[(i, s)].to64() == exp.yw[i][s] as f64;
                    }
                }
            }
            rep.check("C18", ok, 0.0, || det("weighted data differ from W*Y of the last observations/weights calls", "yw"));
            match (coeffs, resid) {
                (Some(c), Some(r)) => {
                    let mut worst = 0.0f64;
                    let shape = c.nrows() == pt.cn.len() && r.len() == pt.rn.len();
                    if shape {
                        for j in 0..c.nrows() {
                            for s in 0..c.ncols() {
                                worst = worst.max(dev(c[(j, s)].to64(), pt.cn[j][s], pt.d));
                            }
                        }
                        for k in 0..r.len() {
                            worst = worst.max(dev(r[k].to64(), pt.rn[k], pt.d));
                        }
                    }
                    rep.check("C18", shape && worst <= T::tol(), worst, || {
                        det("initial coefficients/residuals differ from the expectation (threshold |eps|, last-call-wins data)", &format!("dev {worst}"))
                    });
                }
                _ => rep.violation("C18", det("initial residuals/coefficients absent although the model evaluates", "None")),
            }
        }
    }
}

pub fn run(path: &str) -> Report {
    let lines = crate::export::read_tagged(path, "VPPB");
    let reports: Vec<Report> = lines
        .par_chunks(1024)
        .enumerate()
        .map(|(ci, chunk)| {
            let mut rep = Report::new();
            for (k, raw) in chunk.iter().enumerate() {
                let idx = ci * 1024 + k;
                let l: PbLine = match serde_json::from_str(raw) {
                    Ok(l) => l,
                    Err(e) => {
                        rep.tool_error(format!("malformed VPPB line {idx}: {e}"));
                        continue;
                    }
                };
                for par in [false, true] {
                    judge::<f64>(idx, &l, par, &mut rep);
                    judge::<f32>(idx, &l, par, &mut rep);
                }
                rep.count("sequences", 1);
                if l.v {
                    rep.count("valid_sequences", 1);
                }
                if idx % 7919 == 0 {
                    rep.sample(json!({"L": l.l, "mrhs": l.mrhs, "calls": l.c, "valid": l.v, "defects": l.d}));
                }
            }
            rep
        })
        .collect();
    let mut total = Report::new();
    for r in reports {
        total.merge(r);
    }
    total
}
