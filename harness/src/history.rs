//! C10 / C09 / C02: behaviours of spec/VPProblem.tla (random walks: updates incl. repeated,
//! failing and non-finite ones, queries in any multiplicity, into_sequential) replayed on one
//! long lived problem object; after every step the problem is compared with the exact
//! expectation and bit for bit with a freshly built problem.
use crate::lattice::*;
use crate::models::*;
use crate::prob::*;
use crate::report::Report;
use crate::sc::*;
use nalgebra::{DMatrix, Dyn, OMatrix, OVector};
use rayon::prelude::*;
use serde::Deserialize;
use serde_json::json;
use std::sync::{Arc, Mutex};
use varpro::prelude::*;

#[derive(Deserialize, Debug, Clone)]
pub struct StepJ {
    pub op: String,
    pub q: usize,
    pub f: String,
    pub g: i64,
    pub alpha: usize,
    pub cache: usize,
}
#[derive(Deserialize, Debug, Clone)]
pub struct HiLine {
    pub line: Line,
    pub steps: Vec<StepJ>,
}

#[derive(Default, Debug)]
pub struct Script {
    pub fail_next_set: bool,
    pub fail_eval: bool,
    pub nonfinite: bool,
    pub fail_deriv: Option<usize>,
}
#[derive(Clone)]
pub struct Scripted<T: Sc> {
    pub inner: TableModel<T>,
    pub script: Arc<Mutex<Script>>,
}
impl<T: Sc> SeparableNonlinearModel for Scripted<T> {
    type ScalarType = T;
    type Error = MErr;
    fn parameter_count(&self) -> usize {
        self.inner.parameter_count()
    }
    fn base_function_count(&self) -> usize {
        self.inner.base_function_count()
    }
    fn output_len(&self) -> usize {
        self.inner.output_len()
    }
    fn set_params(&mut self, parameters: OVector<T, Dyn>) -> Result<(), MErr> {
        let fail = {
            let mut s = self.script.lock().unwrap();
            std::mem::replace(&mut s.fail_next_set, false)
        };
        if fail {
            return Err(MErr::Injected("set_params"));
        }
        self.inner.set_params(parameters)
    }
    fn params(&self) -> OVector<T, Dyn> {
        self.inner.params()
    }
    fn eval(&self) -> Result<OMatrix<T, Dyn, Dyn>, MErr> {
        let (fe, nf) = {
            let s = self.script.lock().unwrap();
            (s.fail_eval, s.nonfinite)
        };
        if fe {
            return Err(MErr::Injected("eval"));
        }
        let mut m = self.inner.eval()?;
        if nf {
            let last = (m.nrows() - 1, m.ncols() - 1);
            m[last] = T::of64(f64::NAN);
        }
        Ok(m)
    }
    fn eval_partial_deriv(&self, k: usize) -> Result<OMatrix<T, Dyn, Dyn>, MErr> {
        if self.script.lock().unwrap().fail_deriv == Some(k) {
            return Err(MErr::Injected("eval_partial_deriv"));
        }
        self.inner.eval_partial_deriv(k)
    }
}

fn run_behaviour<T: Sc>(idx: usize, h: &HiLine, par: bool, rep: &mut Report) {
    let inst = Inst::<T>::new(&h.line, idx, rep);
    let a1 = inst.line.pts[0].a.clone();
    let script = Arc::new(Mutex::new(Script::default()));
    let model = Scripted {
        inner: TableModel::new(inst.table.clone(), &a1),
        script: script.clone(),
    };
    let mrhs = inst.s >= 2;
    let ev = EpsVar::User;
    let flav = format!("behaviour={} fam={}({},{},{}) {} par={}", idx, inst.line.fam.name, inst.m, inst.p, inst.line.fam.seed, T::NAME, par);
    let mut prob = match build_problem(model, mrhs, par, &inst.y, inst.w.as_deref(), inst.eps_value(ev)) {
        Ok(p) => p,
        Err(e) => {
            rep.tool_error(format!("history: build failed {flav}: {e:?}"));
            return;
        }
    };
    let mut any_fault = false;
    for (si, st) in h.steps.iter().enumerate() {
        let det = |what: &str| json!({"flavour": flav, "step": si, "op": st.op, "q": st.q, "fault": st.f, "g": st.g, "expected_alpha": st.alpha, "expected_cache": st.cache, "what": what});
        match st.op.as_str() {
            "set" => {
                {
                    let mut s = script.lock().unwrap();
                    s.fail_next_set = st.f == "setFails";
                    s.fail_eval = st.f == "evalFails";
                    s.nonfinite = st.f == "nonfinite";
                }
                if st.f != "ok" {
                    any_fault = true;
                }
                let a: Vec<T> = inst.line.pts[st.q - 1].a.iter().map(|&v| T::of64(v as f64)).collect();
                prob.set_params(&a);
                let mut s = script.lock().unwrap();
                s.fail_next_set = false;
                s.fail_eval = false;
                s.nonfinite = false;
            }
            "query" => {
                let o1 = observe_light(prob.as_ref());
                for _ in 1..st.g {
                    let o2 = observe_light(prob.as_ref());
                    rep.check("C10", o1 == o2, 0.0, || det("repeated queries differ"));
                }
            }
            "jac" => {
                script.lock().unwrap().fail_deriv = if st.g >= 0 { Some(st.g as usize) } else { None };
                let j = prob.jacobian();
                script.lock().unwrap().fail_deriv = None;
                let expect_present = st.cache != 0 && st.g < 0;
                // C03 / C09: no Jacobian when a derivative fails or nothing is cached; never a partial one
                let p = if st.g >= 0 || st.cache == 0 { "C09" } else { "C03" };
                rep.check(p, j.is_some() == expect_present, 0.0, || det("jacobian presence"));
                if st.g >= 0 && st.cache != 0 {
                    // (C03 states it as well: a failing derivative gives no Jacobian, not a partially filled one)
                    rep.check("C03", j.is_none(), 0.0, || det("a Jacobian is produced although a partial derivative fails to evaluate (partially filled)"));
                }
                // whatever is handed out consists of computed values (under a poisoning allocator an
                // element that was never written shows the fill pattern: C10)
                if let Some(jm) = &j {
                    crate::report::hash_obs::<T>(rep, &None, &None, &Some(jm.as_slice().to_vec()));
                }
            }
            "intoseq" => {
                let before = observe(prob.as_ref());
                let pb = prob.params();
                prob = prob.into_seq();
                let after = observe(prob.as_ref());
                rep.check("C11", obs_bits_eq(&before, &after) && bits_eq(&pb, &prob.params()), 0.0, || det("into_sequential changed the state"));
                prob = prob.into_par();
                let again = observe(prob.as_ref());
                rep.check("C11", obs_bits_eq(&before, &again) && bits_eq(&pb, &prob.params()), 0.0, || det("into_parallel changed the state"));
            }
            other => panic!("unknown op {other}"),
        }
        // state after the step
        let pexp: Vec<f64> = inst.line.pts[st.alpha - 1].a.iter().map(|&v| v as f64).collect();
        let pgot: Vec<f64> = prob.params().iter().map(|v| v.to64()).collect();
        rep.check("C02", pexp == pgot, 0.0, || det("reported parameters are not the ones the model holds"));
        let present = prob.coeffs().is_some();
        let rpresent = prob.residuals().is_some();
        if st.cache == 0 {
            rep.check("C09", !present && !rpresent, 0.0, || det("values exposed after a failed update (must be absent)"));
        } else {
            rep.check("C10", present && rpresent, 0.0, || det("values absent although the last update succeeded"));
            if present && rpresent {
                // exact expectation: the state is that of the lattice point `cache`, whatever happened before
                check_point_as(&inst, st.cache - 1, prob.as_ref(), ev, &flav, true, Some("C10"), rep);
                if any_fault {
                    // C09: whatever is present after failures is correct for the reported parameters
                    check_point_as(&inst, st.cache - 1, prob.as_ref(), ev, &flav, false, Some("C09"), rep);
                }
                // and identical to a fresh problem
                let fresh_model = TableModel::new(inst.table.clone(), &inst.line.pts[st.cache - 1].a);
                if let Ok(fresh) = build_problem(fresh_model, mrhs, false, &inst.y, inst.w.as_deref(), inst.eps_value(ev)) {
                    let o1 = observe(prob.as_ref());
                    let o2 = observe(fresh.as_ref());
                    rep.check("C10", obs_bits_eq(&o1, &o2), 0.0, || det("state after the history differs bitwise from a freshly built problem"));
                    crate::report::hash_obs(rep, &o1.c, &o1.r, &o1.j);
                }
            }
        }
        rep.count("steps", 1);
    }
    rep.count("sequences", 1);
}

/// C11: the same behaviour on a sequential and a parallel problem side by side (faults included):
/// after every step both must expose the same things
fn run_pair<T: Sc>(idx: usize, h: &HiLine, rep: &mut Report) {
    let inst = Inst::<T>::new(&h.line, idx, rep);
    let a1 = inst.line.pts[0].a.clone();
    let mrhs = inst.s >= 2;
    let ev = EpsVar::User;
    let mk = |par: bool| {
        let script = Arc::new(Mutex::new(Script::default()));
        let model = Scripted {
            inner: TableModel::new(inst.table.clone(), &a1),
            script: script.clone(),
        };
        (build_problem(model, mrhs, par, &inst.y, inst.w.as_deref(), inst.eps_value(ev)), script)
    };
    let ((Ok(mut ps), ss), (Ok(mut pp), sp)) = (mk(false), mk(true)) else {
        rep.tool_error(format!("history pair: build failed for behaviour {idx}"));
        return;
    };
    let pools = [1usize, 2, 4, 16];
    let pool = crate::pools::pool(pools[idx % 4]);
    for (si, st) in h.steps.iter().enumerate() {
        let flav = format!("behaviour={} pair {} pool={}", idx, T::NAME, pools[idx % 4]);
        for (prob, script) in [(&mut ps, &ss), (&mut pp, &sp)] {
            match st.op.as_str() {
                "set" => {
                    {
                        let mut s = script.lock().unwrap();
                        s.fail_next_set = st.f == "setFails";
                        s.fail_eval = st.f == "evalFails";
                        s.nonfinite = st.f == "nonfinite";
                    }
                    let a: Vec<T> = inst.line.pts[st.q - 1].a.iter().map(|&v| T::of64(v as f64)).collect();
                    pool.install(|| prob.set_params(&a));
                    let mut s = script.lock().unwrap();
                    s.fail_next_set = false;
                    s.fail_eval = false;
                    s.nonfinite = false;
                }
                "jac" => {
                    script.lock().unwrap().fail_deriv = if st.g >= 0 { Some(st.g as usize) } else { None };
                }
                _ => {}
            }
        }
        let os = observe(ps.as_ref());
        let op = pool.install(|| observe(pp.as_ref()));
        ss.lock().unwrap().fail_deriv = None;
        sp.lock().unwrap().fail_deriv = None;
        let same_presence = os.c.is_some() == op.c.is_some() && os.r.is_some() == op.r.is_some() && os.j.is_some() == op.j.is_some();
        let dv = if same_presence { obs_close_pub(&os, &op) } else { f64::INFINITY };
        let params_same = bits_eq(&ps.params(), &pp.params());
        rep.check("C11", same_presence && dv <= T::tol() && params_same, if dv.is_finite() { dv } else { 0.0 }, || {
            json!({"flavour": flav, "step": si, "op": st.op, "fault": st.f, "g": st.g,
                   "what": "parallel and sequential problem expose different things after the same history",
                   "seq_present": [os.c.is_some(), os.r.is_some(), os.j.is_some()], "par_present": [op.c.is_some(), op.r.is_some(), op.j.is_some()]})
        });
    }
    rep.count("pair_sequences", 1);
}

#[derive(PartialEq)]
struct Light {
    c: Option<Vec<u64>>,
    r: Option<Vec<u64>>,
    p: Vec<u64>,
    y: Vec<u64>,
}
fn observe_light<T: Sc>(p: &dyn Prob<T>) -> Light {
    Light {
        c: p.coeffs().map(|m| m.iter().map(|v| v.bits()).collect()),
        r: p.residuals().map(|v| v.iter().map(|x| x.bits()).collect()),
        p: p.params().iter().map(|v| v.bits()).collect(),
        y: p.weighted_data().iter().map(|v| v.bits()).collect(),
    }
}

pub fn run(path: &str) -> Report {
    let lines = crate::export::read_tagged(path, "VPHI");
    let reports: Vec<Report> = lines
        .par_iter()
        .enumerate()
        .map(|(idx, raw)| {
            let mut rep = Report::new();
            match serde_json::from_str::<HiLine>(raw) {
                Ok(h) => {
                    run_behaviour::<f64>(idx, &h, idx % 2 == 1, &mut rep);
                    if idx % 3 == 0 {
                        run_behaviour::<f32>(idx, &h, idx % 2 == 0, &mut rep);
                    }
                    if idx % 2 == 0 {
                        run_pair::<f64>(idx, &h, &mut rep);
                    }
                    if idx % 211 == 0 {
                        rep.sample(json!({"fam": h.line.fam.name, "w": h.line.w, "steps": h.steps.iter().take(12).map(|s| json!([s.op, s.q, s.f, s.g, s.alpha, s.cache])).collect::<Vec<_>>()}));
                    }
                }
                Err(e) => rep.tool_error(format!("malformed VPHI line {idx}: {e}")),
            }
            rep
        })
        .collect();
    let mut total = Report::new();
    for r in reports {
        total.merge(r);
    }
    let _ = DMatrix::<f64>::zeros(0, 0);
    total
}
