--------------------------- MODULE VPStats ---------------------------
(***************************************************************************)
(* Fit statistics of a single right hand side problem (C12, C13, C14) as   *)
(* exact rationals at an exactly stationary lattice point.                 *)
(*                                                                         *)
(* A stationary instance is (fam, x, w, a, c, r0) with observations        *)
(*      y = Phi(a) c + r0                                                  *)
(* such that the weighted residual rw = W r0 is orthogonal to every column *)
(* of Hw = W [Phi | D_1 c | .. | D_P c].  Then c is the least squares      *)
(* coefficient vector at a, the gradient of the projected objective        *)
(* vanishes at a, and a fit started at a stays there.                      *)
(*                                                                         *)
(*   nu      = N - M - P                       degrees of freedom           *)
(*   chi2    = |rw|^2 / nu                     reduced chi squared          *)
(*   Cov     = chi2 * adj(Hw^T Hw) / det(Hw^T Hw),  order (c_1..c_M, a_1..a_P) *)
(*   corr_ij = Cov_ij / sqrt(Cov_ii Cov_jj) = adj_ij / sqrt(adj_ii adj_jj) *)
(*   band_i  = t((1+p)/2; nu) * sqrt(h_i^T Cov h_i),  h_i = row i of the   *)
(*             UNWEIGHTED H                                                *)
(* No square roots are taken here: the export carries the integer factors. *)
(***************************************************************************)
EXTENDS VPOracle

\* model function Jacobian [Phi | D_k c]  (unweighted)
HMat(f, x, a, c) == LET Ph == Phi(f, x, a) IN
  E([i \in 1..Len(x) |-> E([j \in 1..(f.M + f.P) |->
        IF j <= f.M THEN Ph[i][j] ELSE Dot(DPhi(f, x, a, j - f.M)[i], c)])])

Nu(f, x) == Len(x) - f.M - f.P

\* two sided Student t quantile t((1+p)/2; nu) times 10^6 for p in <<1/2, 683/1000, 9/10, 19/20, 99/100>>
\* (scipy.stats.t.ppf, rounded); nu = 2 is also available exactly: t^2 = 2 p^2 / (1 - p^2)
PNum == <<10, 100, 500, 683, 900, 950, 990>>      \* p * 1000 (two probabilities below one half as well)
TQ(nu) == CASE nu = 1 -> <<15709, 158384, 1000000, 1839473, 6313752, 12706205, 63656741>>
            [] nu = 2 -> <<14143, 142134, 816497, 1322404, 2919986, 4302653, 9924843>>
            [] nu = 3 -> <<13604, 136598, 764892, 1197804, 2353363, 3182446, 5840909>>
            [] nu = 4 -> <<13334, 133830, 740697, 1142465, 2131847, 2776445, 4604095>>
            [] nu = 5 -> <<13172, 132175, 726687, 1111299, 2015048, 2570582, 4032143>>
            [] nu = 6 -> <<13064, 131076, 717558, 1091333, 1943180, 2446912, 3707428>>
            [] nu = 7 -> <<12988, 130293, 711142, 1077458, 1894579, 2364624, 3499483>>
            [] nu = 8 -> <<12930, 129707, 706387, 1067259, 1859548, 2306004, 3355387>>
            [] nu = 9 -> <<12886, 129253, 702722, 1059447, 1833113, 2262157, 3249836>>
            [] nu = 11 -> <<12821, 128594, 697445, 1048272, 1795885, 2200985, 3105807>>
            [] nu = 13 -> <<12777, 128139, 693829, 1040664, 1770933, 2160369, 3012276>>
            [] nu = 14 -> <<12759, 127961, 692417, 1037703, 1761310, 2144787, 2976843>>
            [] nu = 16 -> <<12731, 127671, 690132, 1032926, 1745884, 2119905, 2920782>>
            [] nu = 17 -> <<12719, 127552, 689195, 1030971, 1739607, 2109816, 2898231>>
            [] nu = 18 -> <<12709, 127447, 688364, 1029239, 1734064, 2100922, 2878440>>
            [] nu = 19 -> <<12699, 127352, 687621, 1027694, 1729133, 2093024, 2860935>>
            [] nu = 10 -> <<12850, 128890, 699812, 1053274, 1812461, 2228139, 3169273>>
            [] nu = 12 -> <<12797, 128347, 695483, 1044138, 1782288, 2178813, 3054540>>
            [] nu = 15 -> <<12744, 127806, 691197, 1035150, 1753050, 2131450, 2946713>>
            [] nu = 20 -> <<12691, 127267, 686954, 1026308, 1724718, 2085963, 2845340>>
            [] nu = 24 -> <<12665, 126998, 684850, 1021941, 1710882, 2063899, 2796940>>
            [] nu = 30 -> <<12638, 126730, 682756, 1017611, 1697261, 2042272, 2749996>>
            [] nu = 31 -> <<12635, 126695, 682486, 1017054, 1695519, 2039513, 2744042>>
            [] nu = 32 -> <<12632, 126663, 682234, 1016533, 1693889, 2036933, 2738481>>
            [] nu = 40 -> <<12612, 126462, 680673, 1013315, 1683851, 2021075, 2704459>>
            [] nu = 50 -> <<12596, 126301, 679428, 1010755, 1675905, 2008559, 2677793>>
            [] nu = 60 -> <<12586, 126194, 678601, 1009056, 1670649, 2000298, 2660283>>
            [] nu = 80 -> <<12573, 126061, 677569, 1006939, 1664125, 1990063, 2638691>>
            [] nu = 100 -> <<12565, 125981, 676951, 1005673, 1660234, 1983972, 2625891>>
            [] nu = 120 -> <<12560, 125928, 676540, 1004831, 1657651, 1979930, 2617421>>
            [] nu = 200 -> <<12549, 125821, 675718, 1003151, 1652508, 1971896, 2600634>>
            [] nu = 300 -> <<12544, 125768, 675308, 1002313, 1649949, 1967903, 2592316>>
            [] nu = 500 -> <<12540, 125725, 674981, 1001644, 1647907, 1964720, 2585698>>
            [] nu = 1000 -> <<12537, 125693, 674735, 1001143, 1646379, 1962339, 2580755>>
            [] nu = 1001 -> <<12537, 125693, 674735, 1001142, 1646377, 1962337, 2580750>>
            [] nu = 1200 -> <<12536, 125688, 674694, 1001059, 1646124, 1961943, 2579933>>
            [] nu = 1500 -> <<12536, 125683, 674653, 1000976, 1645870, 1961547, 2579111>>
            [] nu = 2000 -> <<12535, 125677, 674612, 1000892, 1645616, 1961151, 2578290>>
            [] nu = 3000 -> <<12535, 125672, 674572, 1000809, 1645362, 1960755, 2577469>>
            [] nu = 5000 -> <<12534, 125668, 674539, 1000742, 1645158, 1960439, 2576813>>
            [] nu = 5001 -> <<12534, 125668, 674539, 1000742, 1645158, 1960438, 2576813>>
            [] nu = 5002 -> <<12534, 125668, 674539, 1000742, 1645158, 1960438, 2576813>>
            [] nu = 5003 -> <<12534, 125668, 674539, 1000742, 1645158, 1960438, 2576812>>
            [] nu = 5004 -> <<12534, 125668, 674539, 1000742, 1645158, 1960438, 2576812>>
            [] nu = 5005 -> <<12534, 125668, 674539, 1000742, 1645158, 1960438, 2576812>>
            [] OTHER -> <<>>
\* a probability very close to one: p = 1 - k 2^-e = 1 - 5 * 2^-24 is a number of both scalar types,
\* the argument (1+p)/2 = 1 - 5 * 2^-25 of the quantile only of f64 (an f32 computation of it is off
\* by 20 % of the tail).  Quantiles as v * 10^-d (mpmath, 15 digits).
PFine == [k |-> 5, e |-> 24]
TQFine(nu) == CASE nu = 1 -> [v |-> 2136141486, d |-> 3]
                [] nu = 2 -> [v |-> 1831786478, d |-> 6]
                [] nu = 3 -> [v |-> 1948617004, d |-> 7]
                [] nu = 4 -> [v |-> 669597644, d |-> 7]
                [] nu = 5 -> [v |-> 363167045, d |-> 7]
                [] nu = 6 -> [v |-> 245828110, d |-> 7]
                [] OTHER -> [v |-> 0, d |-> 0]
\* the largest f32 number below one, p = 1 - 2^-24 (an f64 number as well; (1+p)/2 = 1 - 2^-25)
PFine2 == [k |-> 1, e |-> 24]
TQFine2(nu) == CASE nu = 1 -> [v |-> 1068070743, d |-> 2]
                 [] nu = 2 -> [v |-> 409599982, d |-> 5]
                 [] nu = 3 -> [v |-> 333215750, d |-> 6]
                 [] nu = 4 -> [v |-> 1001487730, d |-> 7]
                 [] nu = 5 -> [v |-> 501458523, d |-> 7]
                 [] nu = 6 -> [v |-> 322038488, d |-> 7]
                 [] OTHER -> [v |-> 0, d |-> 0]
\* degrees of freedom beyond the lattice: reached by replicating the rows of an instance (ReplLaw);
\* 5000..5005 are consecutive so that every instance (N <= 6) reaches a sample count above 5000
BigNus == {7, 8, 9, 10, 11, 12, 13, 14, 15, 16, 17, 18, 19, 20, 24, 30, 31, 32, 40, 50, 60, 80, 100, 120, 200, 300, 500, 1000, 1001, 1200, 1500, 2000, 3000, 5000, 5001, 5002, 5003, 5004, 5005}
\* the quantile decreases with the degrees of freedom and stays above the normal quantile
NormalQ == <<12533, 125661, 674490, 1000642, 1644854, 1959964, 2575829>>
TQDecreasing == \A i \in 1..7 :
   /\ \A n1, n2 \in (1..6) \cup BigNus : n1 < n2 => TQ(n1)[i] >= TQ(n2)[i]
   /\ \A n \in (1..6) \cup BigNus : TQ(n)[i] > NormalQ[i]
\* exact check of the table row nu = 2 against the closed form, to 1e-6 relative:
\*   |tq^2 (1 - p^2) - 2 p^2 10^12| small; in units that fit 32 bit: use p*1000 and tq/1000
TQ2Consistent == \A i \in 3..7 :
   LET p == PNum[i]
       t == TQ(2)[i] \div 1000          \* t * 1000
   IN  \* t^2 (10^6 - p^2) ~ 2 p^2 10^6   (all scaled by 10^6), tolerance 1 %
       LET lhs == ((t * t) \div 1000) * ((1000000 - p * p) \div 100)      \* ~ t^2 (1-p^2) * 10^7
           rhs == 20 * p * p                                           \* 2 p^2 * 10^7
       IN (lhs - rhs) * 100 <= rhs /\ (rhs - lhs) * 100 <= rhs
TQMonotone == \A nu \in 1..6 : \A i \in 1..6 : TQ(nu)[i] < TQ(nu)[i + 1]

(* everything the statistics need, or lvl = 0 when 32 bit would overflow / H is singular *)
StatEval(f, x, w, a, c, r0) ==
  LET Hm == HMat(f, x, a, c)
      Hw == RowScale(w, Hm)
      rw == RowScaleV(w, r0)
  IN IF ~GramSafe(Hw) THEN [lvl |-> 0]
     ELSE LET HtH == Gram(Hw) IN
     IF ~DetSafe(HtH) THEN [lvl |-> 0]
     ELSE LET dH == Det(HtH) IN
     IF dH = 0 THEN [lvl |-> 0]
     ELSE LET A == Adj(HtH)
              HmT == T(Hm)
     IN IF ~SafeMM(A, HmT) THEN [lvl |-> 0]
        ELSE LET AH == MM(A, HmT)          \* (M+P) x N
                 quad == [i \in 1..Len(x) |-> Dot(Hm[i], Col(AH, i))]
             IN IF SatMul(Len(Hm[1]), SatMul(MaxAbs(Hm), MaxAbs(AH))) >= Limit THEN [lvl |-> 0]
                ELSE [lvl |-> 1, rr |-> Dot(rw, rw), nu |-> Nu(f, x), detH |-> dH, adj |-> A,
                      quad |-> E(quad), rw |-> rw, H |-> Hm]

Stationary(f, x, w, a, c, r0) ==
  LET Hw == RowScale(w, HMat(f, x, a, c))
      rw == RowScaleV(w, r0)
  IN /\ \E i \in 1..Len(rw) : rw[i] # 0
     /\ \A j \in 1..(f.M + f.P) : Dot(Col(Hw, j), rw) = 0

(* ---------------- scaling law ---------------- *)
(* Scaling the residual r0 by t (y = Phi c + t r0) keeps the point stationary, multiplies |rw|^2 by  *)
(* t^2 and leaves H, adj(H^T H), det and the quadratic forms unchanged: chi2 and Cov scale by t^2,   *)
(* the band radius by |t|, the correlation matrix not at all.  Checked here for integer t; the       *)
(* replay uses it with t = 2^-k (exact in binary floating point) to reach covariances of size 1e-18. *)
ScaleLaw(f, x, w, a, c, r0, t) ==
  LET e1 == StatEval(f, x, w, a, c, r0)
      r2 == [i \in 1..Len(r0) |-> t * r0[i]]
      e2 == StatEval(f, x, w, a, c, r2)
  IN (e1.lvl = 1 /\ e2.lvl = 1 /\ SatMul(t * t, e1.rr) < Limit) =>
       /\ Stationary(f, x, w, a, c, r2)
       /\ e2.rr = t * t * e1.rr
       /\ e2.adj = e1.adj /\ e2.detH = e1.detH /\ e2.quad = e1.quad

(* Scaling the WEIGHTS by t (no weights = all ones) multiplies Hw and rw by t: |rw|^2 by t^2,      *)
(* adj(Hw^T Hw) by t^(2K-2), det by t^(2K) (K = M+P) and leaves the unweighted H alone, hence       *)
(* chi2 scales by t^2 while Cov, correlation and band radius do not change at all.                  *)
RECURSIVE IPow(_, _)
IPow(b, e) == IF e = 0 THEN 1 ELSE b * IPow(b, e - 1)
WeightScaleLaw(f, x, w, a, c, r0, t) ==
  LET K == f.M + f.P
      w1 == IF w = <<>> THEN [i \in 1..Len(x) |-> 1] ELSE w
      w2 == [i \in 1..Len(x) |-> t * w1[i]]
      e1 == StatEval(f, x, w1, a, c, r0)
      e2 == StatEval(f, x, w2, a, c, r0)
  IN (e1.lvl = 1 /\ e2.lvl = 1 /\ SatMul(IPow(t, 2 * K), Abs(e1.detH)) < Limit
      /\ SatMul(IPow(t, 2 * K - 2), MaxAbs(e1.adj)) < Limit) =>
       /\ Stationary(f, x, w2, a, c, r0)
       /\ e2.rr = t * t * e1.rr
       /\ e2.detH = IPow(t, 2 * K) * e1.detH
       /\ \A i, j \in 1..K : e2.adj[i][j] = IPow(t, 2 * K - 2) * e1.adj[i][j]

(* Scaling the COEFFICIENTS c by t (y = Phi t c + r0) keeps the point stationary and multiplies the  *)
(* nonlinear columns W D_k c of H by t: with S = diag(1,..,1,t,..,t), H' = H S, hence                 *)
(* (H'^T H')^-1 = S^-1 (H^T H)^-1 S^-1: chi2, correlation and band radius do not change, Cov_ij is    *)
(* divided by S_i S_j.  The replay uses t = 2^30 (f64) / 2^12 (f32): a badly SCALED, perfectly         *)
(* conditioned-after-scaling H^T H whose singular values spread over more than 1/machine-epsilon.     *)
CoeffScaleLaw(f, x, w, a, c, r0, t) ==
  LET K == f.M + f.P
      c2 == [j \in 1..Len(c) |-> t * c[j]]
      e1 == StatEval(f, x, w, a, c, r0)
      e2 == StatEval(f, x, w, a, c2, r0)
      S(i) == IF i <= f.M THEN 1 ELSE t
      tp == IPow(t, 2 * f.P)
  IN (e1.lvl = 1 /\ e2.lvl = 1 /\ SatMul(tp, Abs(e1.detH)) < Limit /\ SatMul(tp, MaxAbs(e1.adj)) < Limit
      /\ SatMul(t * t, MaxAbs(e2.adj)) < Limit /\ SatMul(tp, MaxAbsV(e1.quad)) < Limit) =>
       /\ Stationary(f, x, w, a, c2, r0)
       /\ e2.rr = e1.rr
       /\ e2.detH = tp * e1.detH
       /\ \A i, j \in 1..K : e2.adj[i][j] * S(i) * S(j) = tp * e1.adj[i][j]
       /\ \A i \in 1..Len(x) : e2.quad[i] = tp * e1.quad[i]

(* Replicating every row K times (same x, y, weight) keeps the point stationary, multiplies |rw|^2   *)
(* and the Gram matrix Hw^T Hw by K and raises the degrees of freedom to K N - M - P: Cov becomes     *)
(* |rw|^2 adj / ((K N - M - P) det) - the K cancels - and the quantile is taken at the larger nu.     *)
(* The replay uses it to reach degrees of freedom up to 1000 with exactly known statistics.          *)
Repl(s, K) == [i \in 1..(K * Len(s)) |-> s[((i - 1) % Len(s)) + 1]]
ReplNu(f, x, K) == K * Len(x) - f.M - f.P
ReplLaw(f, x, w, a, c, r0, K) ==
  LET w1 == IF w = <<>> THEN [i \in 1..Len(x) |-> 1] ELSE w
      Hw == RowScale(w1, HMat(f, x, a, c))
      rw == RowScaleV(w1, r0)
      HwK == E(Repl(Hw, K))
      rwK == E(Repl(rw, K))
  IN (GramSafe(HwK) /\ SatMul(K * Len(x), SatMul(MaxAbs(HwK), MaxAbsV(rwK))) < Limit) =>
       /\ \A i, j \in 1..(f.M + f.P) : Gram(HwK)[i][j] = K * Gram(Hw)[i][j]
       /\ Dot(rwK, rwK) = K * Dot(rw, rw)
       /\ (Stationary(f, x, w, a, c, r0) => \A j \in 1..(f.M + f.P) : Dot(Col(HwK, j), rwK) = 0)
\* multipliers that land on a tabulated number of degrees of freedom: the smallest, the largest, and the
\* smallest and largest among those with 24 .. 1001 degrees of freedom
ReplChoices(f, x) ==
  LET all == {K \in 2..2600 : ReplNu(f, x, K) \in BigNus}
      mid == {K \in all : ReplNu(f, x, K) >= 24 /\ ReplNu(f, x, K) <= 1001}
      Min(S) == CHOOSE K \in S : \A L \in S : K <= L
      Max(S) == CHOOSE K \in S : \A L \in S : K >= L
  IN IF all = {} THEN {}
     ELSE {Min(all), Max(all)} \cup (IF mid = {} THEN {} ELSE {Min(mid), Max(mid)})

(* ---------------- theorems about the definitions ---------------- *)
CovSym(e) == e.lvl = 1 => \A i, j \in 1..Len(e.adj) : e.adj[i][j] = e.adj[j][i]
CovDiagNonNeg(e) == e.lvl = 1 => (e.detH > 0 /\ \A i \in 1..Len(e.adj) : e.adj[i][i] > 0)
\* |corr| <= 1  <=>  adj_ij^2 <= adj_ii adj_jj  (Cauchy-Schwarz for a positive definite matrix)
Corr2Le1(e) == e.lvl = 1 => \A i, j \in 1..Len(e.adj) :
                 (SatMul(Abs(e.adj[i][j]), Abs(e.adj[i][j])) < Limit /\ SatMul(e.adj[i][i], e.adj[j][j]) < Limit)
                   => e.adj[i][j] * e.adj[i][j] <= e.adj[i][i] * e.adj[j][j]
BandNonNeg(e) == e.lvl = 1 => \A i \in 1..Len(e.quad) : e.quad[i] >= 0
=======================================================================
