SPECIFICATION Spec
CONSTANTS Tier = "thorough"
INVARIANTS CurShape ZeroIffIndependent ArgsByName
CHECK_DEADLOCK FALSE
