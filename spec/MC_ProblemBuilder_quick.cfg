SPECIFICATION Spec
CONSTANTS Tier = "quick"
          MaxLen = 3
INVARIANTS OkIffValid ErrInDefects Export
CHECK_DEADLOCK FALSE
