SPECIFICATION Spec
CONSTANTS Tier = "thorough"
INVARIANTS TableOK Export
CHECK_DEADLOCK FALSE
