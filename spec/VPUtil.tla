--------------------------- MODULE VPUtil ---------------------------
(***************************************************************************)
(* Behaviour of the public helpers underneath the properties (not itself a *)
(* listed property; it extends what the specification covers):            *)
(*  - Weights / DiagMatrix algebra (varpro::util): Unit weights are the    *)
(*    identity, Diagonal(w) scales row i by w_i, a dimension mismatch      *)
(*    panics (documented), is_size_correct_for_data_length, size();        *)
(*  - BasisFunction::eval: a callable of arity r applied to a parameter    *)
(*    slice dispatches params[0..r) to its arguments IN ORDER and panics   *)
(*    (documented) when the slice length differs from r.                   *)
(***************************************************************************)
EXTENDS VPLinAlg, Json

CONSTANTS Tier

VARIABLES kind, wlen, rows, cols, arity, slen
vars == <<kind, wlen, rows, cols, arity, slen>>

Init == \/ (/\ kind = "wmul" /\ wlen \in -1..3 /\ rows \in 0..3 /\ cols \in 0..2 /\ arity = 0 /\ slen = 0)
        \/ (/\ kind = "dispatch" /\ arity \in 1..10 /\ slen \in 0..11 /\ wlen = 0 /\ rows = 0 /\ cols = 0)
Next == UNCHANGED vars
Spec == Init /\ [][Next]_vars

\* data used by the replay: w_i = i + 1, A[i][j] = 3 i - 2 j + 1 (1-based)
WVec == [i \in 1..wlen |-> i + 1]
AMat == [i \in 1..rows |-> [j \in 1..cols |-> 3 * i - 2 * j + 1]]
\* wlen = -1: Weights::Unit
WMulPanics == wlen >= 0 /\ wlen # rows
WMulResult == IF wlen = -1 THEN AMat ELSE [i \in 1..rows |-> [j \in 1..cols |-> WVec[i] * AMat[i][j]]]
SizeCorrect == wlen = -1 \/ wlen = rows
\* dispatch: the callable returns its arguments in order; the slice holds 10, 20, 30, ...
DispatchPanics == slen # arity
DispatchResult == [i \in 1..arity |-> 10 * i]

Export ==
  IF kind = "wmul"
  THEN PrintT(<<"VPUT", ToJson([kind |-> kind, wlen |-> wlen, rows |-> rows, cols |-> cols, arity |-> 0, slen |-> 0,
                                panics |-> WMulPanics, size_correct |-> SizeCorrect,
                                result |-> IF WMulPanics THEN <<>> ELSE WMulResult, args |-> <<>>])>>)
  ELSE PrintT(<<"VPUT", ToJson([kind |-> kind, wlen |-> 0, rows |-> 0, cols |-> 0, arity |-> arity, slen |-> slen,
                                panics |-> DispatchPanics, size_correct |-> TRUE, result |-> <<>>,
                                args |-> IF DispatchPanics THEN <<>> ELSE DispatchResult])>>)
=======================================================================
