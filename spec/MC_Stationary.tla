--------------------------- MODULE MC_Stationary ---------------------------
(***************************************************************************)
(* Enumeration of exactly stationary lattice instances for the statistics  *)
(* properties C12, C13, C14, and of under-determined shapes N <= M+P.      *)
(***************************************************************************)
EXTENDS VPStats, TLC, Json, SequencesExt

CONSTANTS Tier

VARIABLES stage, inst, out
vars == <<stage, inst, out>>

StatFamilies ==
  {Fam("Q1", 1, 1, 0), Fam("Q2", 2, 1, 0), Fam("T13", 1, 2, 0), Fam("C31", 3, 1, 0), Fam("E22", 2, 2, 0)}
  \cup {Fam("TAB", sh[1], sh[2], s) : sh \in {<<1, 1>>, <<2, 1>>, <<1, 2>>, <<2, 2>>}, s \in 0..1}
  \cup (IF Tier = "thorough"
        THEN {Fam("TAB", sh[1], sh[2], s) : sh \in {<<3, 1>>, <<1, 3>>, <<2, 1>>, <<1, 2>>}, s \in 2..3}
        ELSE {Fam("TAB", 3, 1, 0), Fam("TAB", 1, 3, 0)})

Extras == IF Tier = "thorough" THEN 1..3 ELSE 1..2          \* nu = N - M - P
MaxN == IF Tier = "thorough" THEN 6 ELSE 5
CVals == {-1, 1, 2}
WPat(id, N) == CASE id = 0 -> <<>>
                 [] id = 1 -> [i \in 1..N |-> IF i = 2 THEN -1 ELSE 1]
                 [] id = 2 -> [i \in 1..N |-> IF i = N THEN 0 ELSE IF i = 1 THEN -1 ELSE 1]
WIds == 0..2
AlphaChoices(f) == IF f.P = 1 THEN {<<0>>, <<1>>}
                   ELSE IF f.P = 2 THEN {<<0, 1>>, <<1, -1>>}
                   ELSE {<<0, 1, -1>>}
RVals == -2..2

Init == stage = 0 /\ inst = <<>> /\ out = <<>>
Pick1 == /\ stage = 0
         /\ stage' = 1
         /\ out' = <<>>
         /\ \E f \in StatFamilies : \E ex \in Extras : \E wid \in WIds : \E a \in AlphaChoices(f) :
              \E c \in [1..f.M -> CVals] :
                 /\ f.M + f.P + ex <= MaxN
                 /\ (wid = 2 => ex >= 2)        \* a zero weight uses up one degree of freedom
                 /\ inst' = [fam |-> f, x |-> XGrid(f.M + f.P + ex), w |-> WPat(wid, f.M + f.P + ex),
                             a |-> a, c |-> c]
Pick2 == /\ stage = 1
         /\ stage' = 2
         /\ \E r0 \in {r \in [1..Len(inst.x) -> RVals] : Stationary(inst.fam, inst.x, inst.w, inst.a, inst.c, r)} :
               LET e == StatEval(inst.fam, inst.x, inst.w, inst.a, inst.c, r0) IN
               /\ e.lvl = 1
               /\ inst' = [fam |-> inst.fam, x |-> inst.x, w |-> inst.w, a |-> inst.a, c |-> inst.c, r0 |-> r0]
               /\ out' = e
\* under-determined shapes N <= M+P (and N < M): statistics must be refused with an error value
UnderN(f) == {n \in 1..(f.M + f.P) : n >= f.M + f.P - 2}
PickUnder == /\ stage = 0
             /\ stage' = 3
             /\ out' = <<>>
             /\ \E f \in StatFamilies : \E n \in UnderN(f) : \E wid \in {0, 1} : \E a \in AlphaChoices(f) : \E yid \in 1..2 :
                   inst' = [fam |-> f, x |-> XGrid(n), w |-> WPat(wid, n), a |-> a,
                            y |-> [i \in 1..n |-> IF yid = 1 THEN ((i * i + 1) % 4) - 1 ELSE i - 2]]
\* C12 at the level of the specification: statistics exist only with positive degrees of freedom
StatsDefined(f, x) == Nu(f, x) >= 1
Next == Pick1 \/ Pick2 \/ PickUnder
Spec == Init /\ [][Next]_vars

ThCovSym == stage = 2 => CovSym(out)
ThCovDiag == stage = 2 => CovDiagNonNeg(out)
ThCorr == stage = 2 => Corr2Le1(out)
ThBand == stage = 2 => BandNonNeg(out)
ThTable == TQ2Consistent /\ TQMonotone /\ TQDecreasing
ThWScale == stage = 2 => WeightScaleLaw(inst.fam, inst.x, inst.w, inst.a, inst.c, inst.r0, 2)
ThCScale == stage = 2 => CoeffScaleLaw(inst.fam, inst.x, inst.w, inst.a, inst.c, inst.r0, 2)
ThRepl == stage = 2 => \A K \in {2, 3} : ReplLaw(inst.fam, inst.x, inst.w, inst.a, inst.c, inst.r0, K)
ThScale == stage = 2 => \A t \in {2, 3} : ScaleLaw(inst.fam, inst.x, inst.w, inst.a, inst.c, inst.r0, t)
\* the stationary point really is the least squares optimum at alpha: c equals the oracle's coefficients
ThCoeffIsC == stage = 2 =>
   LET Yv == [i \in 1..Len(inst.x) |-> Dot(Phi(inst.fam, inst.x, inst.a)[i], inst.c) + inst.r0[i]]
       I == [fam |-> inst.fam, x |-> inst.x, Y |-> ColAsMat(Yv), w |-> inst.w]
       e == Eval(I, inst.a)
   IN (e.lvl >= 1 /\ e.rank = inst.fam.M) =>
        /\ \A j \in 1..inst.fam.M : e.cn[j][1] = e.d * inst.c[j]
        /\ (e.lvl >= 2 => \A k \in 1..inst.fam.P :
              SatMul(Len(inst.x), SatMul(MaxAbs(e.jn[k]), MaxAbs(e.rn))) < Limit
                => FrobDot(e.jn[k], e.rn) = 0)

ThUnder == stage = 3 => ~StatsDefined(inst.fam, inst.x)
ThDefined == stage = 2 => StatsDefined(inst.fam, inst.x)
ExportUnder == stage = 3 =>
  PrintT(<<"VPSU", ToJson([fam |-> inst.fam, x |-> inst.x, w |-> inst.w, a |-> inst.a, y |-> inst.y,
        phi |-> Phi(inst.fam, inst.x, inst.a), dphi |-> [k \in 1..inst.fam.P |-> DPhi(inst.fam, inst.x, inst.a, k)],
        nu |-> Nu(inst.fam, inst.x), stats_defined |-> StatsDefined(inst.fam, inst.x)])>>)
Export == stage = 2 =>
  LET f == inst.fam
      Ph == Phi(f, inst.x, inst.a)
      Yv == [i \in 1..Len(inst.x) |-> Dot(Ph[i], inst.c) + inst.r0[i]]
  IN PrintT(<<"VPST", ToJson([fam |-> f, x |-> inst.x, w |-> inst.w, a |-> inst.a, c |-> inst.c, r0 |-> inst.r0,
        y |-> Yv, phi |-> Ph, dphi |-> [k \in 1..f.P |-> DPhi(f, inst.x, inst.a, k)],
        nu |-> out.nu, rr |-> out.rr, detH |-> out.detH, adj |-> out.adj, quad |-> out.quad, rw |-> out.rw,
        tq |-> TQ(out.nu), pnum |-> PNum, pfine |-> PFine, tqfine |-> TQFine(out.nu), pfine2 |-> PFine2, tqfine2 |-> TQFine2(out.nu),
        repl |-> SetToSeq({[k |-> K, nu |-> ReplNu(f, inst.x, K), tq |-> TQ(ReplNu(f, inst.x, K))] : K \in ReplChoices(f, inst.x)})])>>)
=======================================================================
