--------------------------- MODULE VPProblem ---------------------------
(***************************************************************************)
(* LevMarProblem as a little cache machine (properties C02, C09, C10).     *)
(*                                                                         *)
(*   alpha   parameters the MODEL currently holds (index into the lattice) *)
(*   cache   0 = empty, q > 0: (residuals, SVD, coefficients) computed for *)
(*           lattice point q                                               *)
(* set_params replaces the cache wholesale; a failing model (parameter     *)
(* application or evaluation), or a non-finite weighted basis matrix,      *)
(* empties it; queries never change anything.  There is no other state, so *)
(* what a problem reports after ANY history is what a freshly built        *)
(* problem reports at the last successfully applied alpha (C10).           *)
(* The values themselves are those of VPOracle for the instance.           *)
(***************************************************************************)
EXTENDS VPOracle, TLC, Json

CONSTANTS Tier

VARIABLES inst, alpha, cache, step, last, hist     \* hist: the behaviour so far (exported at its end)
vars == <<inst, alpha, cache, step, last, hist>>

Instances ==
  {[fam |-> f, x |-> XGrid(n), w |-> w, Y |-> Y] :
     f \in {Fam("Q2", 2, 1, 0), Fam("S22", 2, 2, 0), Fam("TAB", 2, 2, 1), Fam("TAB", 3, 1, 0), Fam("R2", 2, 1, 0), Fam("TABZ", 2, 2, 0)},
     n \in {4},
     w \in {<<>>, <<1, 2, 0, 1>>, <<-1, 1, 2, 1>>},
     Y \in {[i \in 1..4 |-> <<((i * i + 1) % 4) - 1>>], [i \in 1..4 |-> <<((3 * i) % 5) - 2, i - 2>>]}}
AlphaVals == <<-1, 0, 1>>
RECURSIVE Pow(_, _)
Pow(b, e) == IF e = 0 THEN 1 ELSE b * Pow(b, e - 1)
AlphaSeq(P, vals) == LET n == Len(vals) IN
  [q \in 1..Pow(n, P) |-> [k \in 1..P |-> vals[(((q - 1) \div Pow(n, k - 1)) % n) + 1]]]
Alphas == AlphaSeq(inst.fam.P, AlphaVals)
NA == Len(Alphas)
Faults == {"ok", "setFails", "evalFails", "nonfinite"}

Init == /\ inst \in Instances
        /\ alpha = 1
        /\ cache = 1              \* build() applies the model's initial parameters
        /\ step = 0
        /\ last = [op |-> "build", q |-> 1, f |-> "ok", g |-> -1]
        /\ hist = <<>>

SetParams(q, f) ==
  /\ alpha' = IF f = "setFails" THEN alpha ELSE q
  /\ cache' = IF f = "ok" THEN q ELSE 0
  /\ last' = [op |-> "set", q |-> q, f |-> f, g |-> -1]
\* queries: residuals / coefficients / weighted data / params, repeated `g` times
Query(g) ==
  /\ UNCHANGED <<alpha, cache>>
  /\ last' = [op |-> "query", q |-> 0, f |-> "ok", g |-> g]
\* jacobian(); g = index of the derivative that fails (-1: none)
QueryJacobian(g) ==
  /\ UNCHANGED <<alpha, cache>>
  /\ last' = [op |-> "jac", q |-> 0, f |-> "ok", g |-> g]
IntoSequential ==
  /\ UNCHANGED <<alpha, cache>>
  /\ last' = [op |-> "intoseq", q |-> 0, f |-> "ok", g |-> -1]

MaxSteps == IF Tier = "thorough" THEN 40 ELSE 24
Next == /\ step < MaxSteps
        /\ step' = step + 1
        /\ inst' = inst
        /\ \/ \E q \in 1..NA, f \in Faults : SetParams(q, f)
           \/ \E g \in 1..3 : Query(g)
           \/ \E g \in -1..(inst.fam.P - 1) : QueryJacobian(g)
           \/ IntoSequential
        /\ hist' = Append(hist, [op |-> last'.op, q |-> last'.q, f |-> last'.f, g |-> last'.g, alpha |-> alpha', cache |-> cache'])
Spec == Init /\ [][Next]_vars

(* ---------------- properties ---------------- *)
\* C02/C09/C10: what is cached belongs to the parameters the model holds
Coherent == cache # 0 => cache = alpha
\* C09: a failure during an update empties the cache
NoStaleStep == (last'.op = "set" /\ last'.f # "ok") => cache' = 0
NoStale == [][NoStaleStep]_vars
\* queries do not change the state
QueriesPureStep == last'.op \in {"query", "jac", "intoseq"} => (cache' = cache /\ alpha' = alpha)
QueriesPure == [][QueriesPureStep]_vars
\* C03/C09: a Jacobian exists iff the cache is present and no derivative fails
JacPresent == cache # 0 /\ last.op = "jac" /\ last.g = -1

(* ---------------- export: the instance once, then one line per step ---------------- *)
Point(q) ==
  LET a == Alphas[q]
      e == Eval(inst, a)
      P == inst.fam.P
  IN [a |-> a, phi |-> PhiU(inst, a), dphi |-> [k \in 1..P |-> DPhi(inst.fam, inst.x, a, k)],
      lvl |-> e.lvl, rank |-> e.rank,
      d |-> IF e.lvl >= 1 THEN e.d ELSE 0,
      cn |-> IF e.lvl >= 1 THEN e.cn ELSE <<>>,
      rn |-> IF e.lvl >= 1 THEN VecCM(e.rn) ELSE <<>>,
      bn |-> IF e.lvl >= 1 /\ "bn" \in DOMAIN e THEN e.bn ELSE <<>>,
      jn |-> IF e.lvl >= 2 THEN [k \in 1..P |-> VecCM(e.jn[k])] ELSE <<>>]
Export == step = MaxSteps =>
  PrintT(<<"VPHI", ToJson([line |-> [fam |-> inst.fam, x |-> inst.x, w |-> inst.w, Y |-> inst.Y, yw |-> YW(inst),
                                     pts |-> [q \in 1..NA |-> Point(q)]],
                           steps |-> hist])>>)
=======================================================================
