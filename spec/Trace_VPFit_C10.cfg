SPECIFICATION Spec
CONSTANT Strict = {"C10"}
POSTCONDITION Accepted
CHECK_DEADLOCK FALSE
