SPECIFICATION Spec
CONSTANT Strict = {"C05"}
POSTCONDITION Accepted
CHECK_DEADLOCK FALSE
