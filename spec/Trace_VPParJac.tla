--------------------------- MODULE Trace_VPParJac ---------------------------
(***************************************************************************)
(* Recorded parallel jacobian() calls validated against VPParJac: begin /  *)
(* end events of every eval_partial_deriv call (index, thread), then the   *)
(* returned matrix described by the derivative each column stems from.     *)
(***************************************************************************)
EXTENDS VPParJac, Json, IOUtils, Sequences

Rec == ndJsonDeserialize(IOEnv.TRACE)
VARIABLE l
vars == <<pvars, l>>
Ev == Rec[l]
Is(e) == l <= Len(Rec) /\ Ev.ev = e
Consume == l' = l + 1

Init == l = 1 /\ PInit
\* a new call: everything starts over
TrStart == /\ Is("JacStart")
           /\ Consume
           /\ unclaimed' = Cols /\ running' = [t \in Threads |-> Idle]
           /\ col' = [k \in Cols |-> Unwritten] /\ failed' = FALSE /\ ret' = "pending"
TrBegin == Is("DBegin") /\ Ev.tid \in Threads /\ Ev.k \in Cols /\ Claim(Ev.tid, Ev.k) /\ Consume
TrEnd == /\ Is("DEnd")
         /\ Ev.tid \in Threads
         /\ running[Ev.tid] = Ev.k
         /\ Finish(Ev.tid, Ev.ok)
         /\ Consume
TrReturn == /\ Is("JacEnd")
            /\ Return
            /\ Consume
            \* what the implementation returned is what the specification says
            /\ Ev.present = (ret' = "some")
            /\ Ev.present => \A k \in Cols : Ev.cols[k + 1] = col[k]
Next == TrStart \/ TrBegin \/ TrEnd \/ TrReturn
Spec == Init /\ [][Next]_vars
Accepted == IF TLCGet("stats").diameter - 1 = Len(Rec) THEN TRUE
            ELSE Print(<<"TRACE-REJECTED", TLCGet("stats").diameter - 1, Len(Rec)>>, FALSE)
=======================================================================
