SPECIFICATION Spec
CONSTANTS Tier = "quick"
INVARIANTS TableOK Export
CHECK_DEADLOCK FALSE
