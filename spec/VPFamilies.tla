--------------------------- MODULE VPFamilies ---------------------------
(***************************************************************************)
(* The integer lattice of separable models.                                *)
(*                                                                         *)
(* A family fixes the M basis functions and their partial derivatives with *)
(* respect to the P nonlinear parameters.  Polynomial families are real    *)
(* models (integer polynomials in x and alpha with their true derivatives);*)
(* tabulated families TAB/TABZ are "whatever the user model returns":      *)
(* varpro never differentiates, it only consumes Phi(alpha) and D_k(alpha),*)
(* so every algebraic identity of VPOracle applies to them as well.        *)
(***************************************************************************)
EXTENDS VPLinAlg

Fam(n, m, p, s) == [name |-> n, M |-> m, P |-> p, seed |-> s]

PolyFamilies == {
  Fam("Q1", 1, 1, 0), Fam("Q2", 2, 1, 0), Fam("L2", 2, 1, 0), Fam("S22", 2, 2, 0),
  Fam("D22", 2, 2, 0), Fam("I32", 3, 2, 0), Fam("T13", 1, 2, 0), Fam("C31", 3, 1, 0),
  Fam("E22", 2, 2, 0), Fam("R2", 2, 1, 0), Fam("Z2", 2, 1, 0), Fam("R3", 3, 1, 0),
  Fam("W3", 3, 1, 0) }

(* families whose weighted basis matrix has full column rank for no / some alpha *)
AlwaysDeficient == {"R2", "R3"}

(* centred sample grids *)
XGrid(N) == CASE N = 1 -> <<1>>
              [] N = 2 -> <<0, 1>>
              [] N = 3 -> <<-1, 0, 1>>
              [] N = 4 -> <<-1, 0, 1, 2>>
              [] N = 5 -> <<-2, -1, 0, 1, 2>>
              [] N = 6 -> <<-2, -1, 0, 1, 2, 3>>

(* hash-like closed formula with values in -2..2 *)
H(i, j, a, s) == ((i * 7 + j * 5 + a * 3 + s * 11 + i * j + a * i + 1000) % 5) - 2
(* the parameter vector enters a table through one integer *)
AKey(a) == SumSeq([k \in 1..Len(a) |-> (2 * k + 1) * a[k]])

(* value of basis function j at sample value x for parameters a *)
PhiEntry(f, i, x, j, a) ==
  CASE f.name = "Q1"  -> (x - a[1]) * (x - a[1])
    [] f.name = "Q2"  -> IF j = 1 THEN 1 ELSE (x - a[1]) * (x - a[1])
    [] f.name = "L2"  -> IF j = 1 THEN x + a[1] ELSE a[1] * x - 1
    [] f.name = "S22" -> IF j = 1 THEN a[1] * x + a[2] ELSE (x - a[1]) * (x - a[2])
    [] f.name = "D22" -> IF j = 1 THEN (x - a[1]) * (x - a[1]) ELSE (x + a[2]) * (x + a[2])
    [] f.name = "I32" -> IF j = 1 THEN 1 ELSE IF j = 2 THEN (x - a[1]) * (x - a[1]) ELSE a[2] * x
    [] f.name = "T13" -> (x - a[1]) * (x + a[2])
    [] f.name = "C31" -> IF j = 1 THEN 1 ELSE IF j = 2 THEN x ELSE (x - a[1]) * (x - a[1]) * (x - a[1])
    [] f.name = "E22" -> IF j = 1 THEN (x - a[1]) * (x - a[1]) ELSE (x - a[2]) * (x - a[2]) * (x - a[2])
    [] f.name = "R2"  -> IF j = 1 THEN x + a[1] ELSE 2 * (x + a[1])
    [] f.name = "Z2"  -> IF j = 1 THEN 1 ELSE a[1] * x
    [] f.name = "R3"  -> IF j = 1 THEN 1 ELSE IF j = 2 THEN x - a[1] ELSE x - a[1] + 1
    [] f.name = "W3"  -> IF j = 1 THEN 1 ELSE IF j = 2 THEN x - a[1] ELSE (x - a[1]) * (x - a[1])
    [] f.name = "TAB" -> H(i, j, AKey(a), f.seed)
    [] f.name = "TABZ" -> H(i, j, AKey(a), f.seed)
    [] f.name = "ORTH" -> IF i = j THEN j + a[1] * a[1] ELSE 0   \* orthogonal columns, norms j + a^2

(* partial derivative of basis function j with respect to parameter k *)
DPhiEntry(f, i, x, j, a, k) ==
  CASE f.name = "Q1"  -> -2 * (x - a[1])
    [] f.name = "Q2"  -> IF j = 1 THEN 0 ELSE -2 * (x - a[1])
    [] f.name = "L2"  -> IF j = 1 THEN 1 ELSE x
    [] f.name = "S22" -> IF k = 1 THEN (IF j = 1 THEN x ELSE -(x - a[2]))
                                  ELSE (IF j = 1 THEN 1 ELSE -(x - a[1]))
    [] f.name = "D22" -> IF k = 1 THEN (IF j = 1 THEN -2 * (x - a[1]) ELSE 0)
                                  ELSE (IF j = 1 THEN 0 ELSE 2 * (x + a[2]))
    [] f.name = "I32" -> IF k = 1 THEN (IF j = 2 THEN -2 * (x - a[1]) ELSE 0)
                                  ELSE (IF j = 3 THEN x ELSE 0)
    [] f.name = "T13" -> IF k = 1 THEN -(x + a[2]) ELSE x - a[1]
    [] f.name = "C31" -> IF j = 3 THEN -3 * (x - a[1]) * (x - a[1]) ELSE 0
    [] f.name = "E22" -> IF k = 1 THEN (IF j = 1 THEN -2 * (x - a[1]) ELSE 0)
                                  ELSE (IF j = 2 THEN -3 * (x - a[2]) * (x - a[2]) ELSE 0)
    [] f.name = "R2"  -> IF j = 1 THEN 1 ELSE 2
    [] f.name = "Z2"  -> IF j = 1 THEN 0 ELSE x
    [] f.name = "R3"  -> IF j = 1 THEN 0 ELSE -1
    [] f.name = "W3"  -> IF j = 1 THEN 0 ELSE IF j = 2 THEN -1 ELSE -2 * (x - a[1])
    [] f.name = "TAB" -> H(i + k, j + 2, AKey(a) + k, f.seed + 1)
    [] f.name = "TABZ" -> IF (j + k) % 2 = 0 THEN 0 ELSE H(i + k, j + 2, AKey(a) + k, f.seed + 1)
    [] f.name = "ORTH" -> IF i = j THEN 2 * a[1] ELSE 0

Phi(f, x, a) == E([i \in 1..Len(x) |-> E([j \in 1..f.M |-> PhiEntry(f, i, x[i], j, a)])])
DPhi(f, x, a, k) == E([i \in 1..Len(x) |-> E([j \in 1..f.M |-> DPhiEntry(f, i, x[i], j, a, k)])])

(* For polynomial families of degree <= 3 in each parameter the derivative  *)
(* is reproduced exactly by the five point stencil                          *)
(*   12 p'(a) = p(a-2) - 8 p(a-1) + 8 p(a+1) - p(a+2).                      *)
Bump(a, k, h) == [a EXCEPT ![k] = @ + h]
DerivIsDerivative(f, x, a) ==
  \A k \in 1..f.P : \A i \in 1..Len(x) : \A j \in 1..f.M :
     12 * DPhiEntry(f, i, x[i], j, a, k) =
         PhiEntry(f, i, x[i], j, Bump(a, k, -2)) - 8 * PhiEntry(f, i, x[i], j, Bump(a, k, -1))
       + 8 * PhiEntry(f, i, x[i], j, Bump(a, k, 1)) - PhiEntry(f, i, x[i], j, Bump(a, k, 2))

(* parameter lattices *)
AlphaLattice(P, vals) == [1..P -> vals]
=======================================================================
