SPECIFICATION Spec
CONSTANT Strict = {"C02"}
POSTCONDITION Accepted
CHECK_DEADLOCK FALSE
