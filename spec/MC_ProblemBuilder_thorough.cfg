SPECIFICATION Spec
CONSTANTS Tier = "thorough"
          MaxLen = 4
INVARIANTS OkIffValid ErrInDefects Export
CHECK_DEADLOCK FALSE
