SPECIFICATION Spec
CONSTANTS Tier = "thorough"
INVARIANTS ThCovSym ThCovDiag ThCorr ThBand ThTable ThScale ThCoeffIsC ThUnder ThDefined Export ExportUnder
CHECK_DEADLOCK FALSE
