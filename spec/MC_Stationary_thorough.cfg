SPECIFICATION Spec
CONSTANTS Tier = "thorough"
INVARIANTS ThCovSym ThCovDiag ThCorr ThBand ThTable ThScale ThCScale ThRepl ThWScale ThCoeffIsC ThUnder ThDefined Export ExportUnder
CHECK_DEADLOCK FALSE
