--------------------------- MODULE VPOracle ---------------------------
(***************************************************************************)
(* Declarative semantics of a variable projection problem on the lattice:  *)
(* what the coefficients, residuals, Kaufman Jacobian, best fit and the    *)
(* projected objective ARE, as exact rationals, for an instance            *)
(*     I = [fam, x, Y, w]   (Y: N x S integer matrix, w: weights or <<>>)  *)
(* and a parameter vector a.  Nothing here mirrors the implementation: the *)
(* coefficients come from the normal equations (adjugate / determinant),   *)
(* the implementation uses an SVD.  The theorems at the end tie the        *)
(* definitions to the wording of properties C01, C02, C03, C06, C07.       *)
(*                                                                         *)
(* Weights enter in exactly two places, PhiW and YW (and DW for the        *)
(* derivative matrices): "weights are applied exactly once".               *)
(***************************************************************************)
EXTENDS VPFamilies

N_(I) == Len(I.x)
S_(I) == NCols(I.Y)
PhiU(I, a) == Phi(I.fam, I.x, a)
PhiW(I, a) == RowScale(I.w, PhiU(I, a))
YW(I) == RowScale(I.w, I.Y)
DW(I, a, k) == RowScale(I.w, DPhi(I.fam, I.x, a, k))

(* ---------- overflow gate ------------------------------------------------*)
RECURSIVE ProdDiag(_, _)
ProdDiag(G, j) == IF j > Len(G) THEN 1 ELSE SatMul(G[j][j], ProdDiag(G, j + 1))
(* Gram entries are bounded by N*e^2; all minors of a positive semidefinite *)
(* matrix and all partial sums of their cofactor expansions are bounded by  *)
(* M * prod(diag) (Hadamard / Fischer)                                      *)
GramSafe(Pw) == SatMul(NCols(Pw), SatMul(MaxAbs(Pw), MaxAbs(Pw))) < Limit
DetSafe(G) == SatMul(Len(G), ProdDiag(G, 1)) < Limit

(***************************************************************************)
(* Full column rank.  All results are integer numerators:                  *)
(*   C = cn / d,  R = rn / d,  BestFit = bn / d,  J_k = jn[k] / d^2        *)
(* lvl = 0: nothing could be evaluated within 32 bit                       *)
(* lvl = 1: coefficients, residuals and best fit                           *)
(* lvl = 2: additionally the Jacobian                                      *)
(***************************************************************************)
FullRankEval(I, a) ==
  LET Pu == PhiU(I, a)
      Pw == PhiW(I, a)
      Yw == YW(I)
      PwT == T(Pw)
  IN IF ~GramSafe(Pw) THEN [lvl |-> 0, rank |-> -1]
     ELSE LET G == Gram(Pw) IN
     IF ~DetSafe(G) THEN [lvl |-> 0, rank |-> -1]
     ELSE LET d == Det(G) IN
     IF d = 0 THEN [lvl |-> 0, rank |-> Rank(Pw)]
     ELSE
     LET A == Adj(G) IN
     IF ~SafeMM(PwT, Yw) THEN [lvl |-> 0, rank |-> NCols(Pw)]
     ELSE LET b == MM(PwT, Yw) IN
     IF ~SafeMM(A, b) THEN [lvl |-> 0, rank |-> NCols(Pw)]
     ELSE LET cn == MM(A, b) IN
     IF ~(SafeMM(Pw, cn) /\ SafeMM(Pu, cn)
          /\ SatAdd(BoundScale(d, Yw), BoundMM(Pw, cn)) < Limit)
     THEN [lvl |-> 0, rank |-> NCols(Pw)]
     ELSE
     LET rn == Sub(Scale(d, Yw), MM(Pw, cn))
         bn == MM(Pu, cn)
         JacOf(k) ==                       \* numerators over d^2, or <<>> when unsafe
           LET Dw == DW(I, a, k) IN
           IF ~SafeMM(Dw, cn) THEN <<>>
           ELSE LET U == MM(Dw, cn) IN
           IF ~SafeMM(PwT, U) THEN <<>>
           ELSE LET PtU == MM(PwT, U) IN
           IF ~SafeMM(A, PtU) THEN <<>>
           ELSE LET Q == MM(A, PtU) IN
           IF ~(SafeMM(Pw, Q) /\ SatAdd(BoundScale(d, U), BoundMM(Pw, Q)) < Limit
                /\ SatMul(Abs(d), Abs(d)) < Limit) THEN <<>>
           ELSE Neg(Sub(Scale(d, U), MM(Pw, Q)))
         jn == E([k \in 1..I.fam.P |-> JacOf(k)])
         jacok == \A k \in 1..I.fam.P : jn[k] # <<>>
     IN [lvl |-> IF jacok THEN 2 ELSE 1, rank |-> NCols(Pw), d |-> d, cn |-> cn, rn |-> rn,
         bn |-> bn, jn |-> jn, b |-> b, A |-> A]

(***************************************************************************)
(* Rank deficient: Moore-Penrose solution from the full rank factorisation *)
(* Pw = F * C, F = first maximal set of independent columns,               *)
(*   x = C'^T adj(C'C'^T) adj(F^T F) F^T Yw / (g * det(C'C'^T)),           *)
(* C = (g/d1) C' with C' integer and primitive.  rank = 0: x = 0.          *)
(***************************************************************************)
DeficientEval(I, a) ==
  LET Pw == PhiW(I, a)
      Yw == YW(I)
      M == NCols(Pw)
      js == RankBasis(Pw)
      r == Len(js)
  IN IF r = 0 THEN [lvl |-> 1, rank |-> 0, d |-> 1,
                    cn |-> [j \in 1..M |-> [s \in 1..NCols(Yw) |-> 0]], rn |-> Yw, js |-> js,
                    cnF |-> <<>>, d1 |-> 1]
     ELSE
     LET F == ColsOf(Pw, js)
         FT == T(F)
         GF == Gram(F)
         d1 == Det(GF)
         AF == Adj(GF)
         FtP == MM(FT, Pw)                 \* bounded like the Gram matrix
     IN IF ~SafeMM(AF, FtP) THEN [lvl |-> 0, rank |-> r]
     ELSE LET cnF == MM(AF, FtP)           \* C = cnF / d1   (r x M)
              g == GcdMat(cnF)
              Cp == DivMat(cnF, g)
              CpT == T(Cp)
     IN IF ~SafeMM(Cp, CpT) THEN [lvl |-> 0, rank |-> r]
     ELSE LET K == MM(Cp, CpT) IN
     IF ~DetSafe(K) THEN [lvl |-> 0, rank |-> r]
     ELSE LET d2 == Det(K)
              AK == Adj(K)
     IN IF ~(SafeMM(FT, Yw)) THEN [lvl |-> 0, rank |-> r]
     ELSE LET z1 == MM(FT, Yw) IN
     IF ~SafeMM(AF, z1) THEN [lvl |-> 0, rank |-> r]
     ELSE LET z2 == MM(AF, z1) IN
     IF ~SafeMM(AK, z2) THEN [lvl |-> 0, rank |-> r]
     ELSE LET z3 == MM(AK, z2) IN
     IF ~SafeMM(CpT, z3) THEN [lvl |-> 0, rank |-> r]
     ELSE LET xn == MM(CpT, z3)
              den == g * d2
     IN IF ~(SatMul(g, Abs(d2)) < Limit /\ SafeMM(Pw, xn)
             /\ SatAdd(BoundScale(den, Yw), BoundMM(Pw, xn)) < Limit)
        THEN [lvl |-> 0, rank |-> r]
        ELSE [lvl |-> 1, rank |-> r, d |-> den, cn |-> xn,
              rn |-> Sub(Scale(den, Yw), MM(Pw, xn)), js |-> js, cnF |-> cnF, d1 |-> d1]

(***************************************************************************)
(* Truncation by a user threshold, decidable on the lattice for matrices   *)
(* with orthogonal columns: the singular values are the column norms.      *)
(* The threshold is eps = sqrt(epsq + 1/2), so sigma_j <= eps iff          *)
(* G_jj <= epsq and the comparison never hits equality.                    *)
(***************************************************************************)
OrthogonalColumns(G) == \A i, j \in 1..Len(G) : i # j => G[i][j] = 0
RECURSIVE ProdKept(_, _, _, _)
ProdKept(G, epsq, skip, j) ==
  IF j > Len(G) THEN 1
  ELSE (IF j = skip \/ G[j][j] <= epsq THEN 1 ELSE G[j][j]) * ProdKept(G, epsq, skip, j + 1)
TruncatedEval(I, a, epsq) ==
  LET Pw == PhiW(I, a)
      Yw == YW(I)
      G == Gram(Pw)
      b == MM(T(Pw), Yw)
      den == ProdKept(G, epsq, 0, 1)
      cn == [j \in 1..Len(G) |-> [s \in 1..NCols(Yw) |->
               IF G[j][j] <= epsq THEN 0 ELSE b[j][s] * ProdKept(G, epsq, j, 1)]]
  IN [lvl |-> 1, rank |-> Cardinality({j \in 1..Len(G) : G[j][j] > epsq}), d |-> den, cn |-> cn,
      rn |-> Sub(Scale(den, Yw), MM(Pw, cn))]

(* the coefficients/residuals of an instance at a, whichever branch applies *)
Eval(I, a) == LET fr == FullRankEval(I, a) IN
              IF fr.lvl = 0 /\ fr.rank >= 0 /\ fr.rank < I.fam.M THEN DeficientEval(I, a) ELSE fr

(***************************************************************************)
(* Projected objective in closed form (never via the residual):            *)
(*   f(a) = sum_s ( |Yw_s|^2 - b_s^T G^-1 b_s ),   d * f = d|Yw|^2 - b^T A b *)
(* and its gradient by the product rule on the closed form:                *)
(*   df/da_k = sum_s ( -2 b'_s^T c_s + c_s^T G'_k c_s ),                   *)
(*   b' = Dw^T Yw,  G' = Dw^T Pw + Pw^T Dw,  c = cn / d                    *)
(***************************************************************************)
SqNorm(A) == SumSeq([i \in 1..Len(A) |-> Dot(A[i], A[i])])
TraceOf(A) == SumSeq([i \in 1..Len(A) |-> A[i][i]])

(* ---------- theorems (each guarded by its own overflow gate) ------------ *)
(* C01: c minimises |W(y - Phi c)|  <=>  normal equations  Pw^T R = 0 *)
NormalEq(I, a, e) ==
  LET Pw == PhiW(I, a) IN
  (e.lvl >= 1 /\ SafeMM(T(Pw), e.rn)) => IsZero(MM(T(Pw), e.rn))

(* C01: minimum norm: x is orthogonal to the null space of Pw; the null     *)
(* vector belonging to a dependent column j is d1*e_j - sum_i cnF[i][j] e_js[i] *)
MinNorm(I, a, e) ==
  (e.lvl >= 1 /\ e.rank > 0 /\ e.rank < I.fam.M /\ "cnF" \in DOMAIN e) =>
    \A j \in 1..I.fam.M : j \notin {e.js[i] : i \in 1..Len(e.js)} =>
      LET nv == [q \in 1..I.fam.M |->
                   IF q = j THEN e.d1
                   ELSE IF \E i \in 1..Len(e.js) : e.js[i] = q
                        THEN -e.cnF[CHOOSE i \in 1..Len(e.js) : e.js[i] = q][j] ELSE 0]
      IN (SatMul(I.fam.M, SatMul(MaxAbsV(nv), MaxAbs(e.cn))) < Limit) =>
           \A s \in 1..S_(I) : Dot(nv, Col(e.cn, s)) = 0

(* C02/C04: the objective the optimizer sees is the projected functional *)
ObjIsResid(I, a, e) ==
  LET Yw == YW(I)
      bAb == TraceOf(MM(T(e.b), MM(e.A, e.b)))
  IN (e.lvl >= 1 /\ e.rank = I.fam.M /\ SafeMM(e.A, e.b) /\ SafeMM(T(e.b), MM(e.A, e.b))
      /\ SatMul(NCols(e.rn) * Len(e.rn), SatMul(MaxAbs(e.rn), MaxAbs(e.rn))) < Limit
      /\ SatMul(Abs(e.d), SatAdd(SatMul(Abs(e.d), SqNorm(Yw)), Abs(bAb))) < Limit)
     => SqNorm(e.rn) = e.d * (e.d * SqNorm(Yw) - bAb)

(* C03: every Jacobian column is orthogonal to the range of Pw *)
JacPerp(I, a, e) ==
  LET Pw == PhiW(I, a) IN
  e.lvl >= 2 => \A k \in 1..I.fam.P :
     SafeMM(T(Pw), e.jn[k]) => IsZero(MM(T(Pw), e.jn[k]))

(* C03: 2 J^T r is the gradient of the projected objective:                 *)
(*   2 jn_k . rn / d^3 = ( -2 d b'_k . cn + cn^T G'_k cn ) / d^2            *)
FrobDot(A, B) == SumSeq([i \in 1..Len(A) |-> Dot(A[i], B[i])])
Gradient(I, a, e) ==
  e.lvl >= 2 => \A k \in 1..I.fam.P :
    LET Pw == PhiW(I, a)
        Dw == DW(I, a, k)
        Yw == YW(I)
        bp == MM(T(Dw), Yw)
        Gp == Add(MM(T(Dw), Pw), MM(T(Pw), Dw))
        nterm == SatMul(Len(e.rn) * NCols(e.rn), SatMul(MaxAbs(e.jn[k]), MaxAbs(e.rn)))
    IN (SatMul(2, nterm) < Limit /\ SafeMM(Gp, e.cn) /\ SafeMM(T(e.cn), MM(Gp, e.cn))
        /\ SafeMM(T(bp), e.cn)
        /\ SatMul(Abs(e.d), SatAdd(SatMul(2 * Abs(e.d), Abs(FrobDot(bp, e.cn))),
                                   Abs(TraceOf(MM(T(e.cn), MM(Gp, e.cn)))))) < Limit)
       => 2 * FrobDot(e.jn[k], e.rn)
            = e.d * (-2 * e.d * FrobDot(bp, e.cn) + TraceOf(MM(T(e.cn), MM(Gp, e.cn))))

(* C06: a weighted instance IS the unweighted instance with scaled rows.   *)
(* Scaled(I) has the rows of Phi, D_k and Y multiplied and no weights;     *)
(* because weights occur only in PhiW/YW/DW the two evaluate identically   *)
(* by construction - the implementation is what has to prove it.  What can *)
(* be checked on the oracle: unit weights = no weights, and a zero weight  *)
(* removes the influence of the sample.                                    *)
UnitIsNone(I, a) ==
  (I.w # <<>> /\ \A i \in 1..Len(I.w) : I.w[i] = 1) =>
     LET e1 == Eval(I, a)
         e0 == Eval([I EXCEPT !.w = <<>>], a)
     IN e1 = e0
ZeroWeightIgnoresSample(I, a, bump) ==
  (I.w # <<>>) => \A i \in 1..Len(I.w) : I.w[i] = 0 =>
     LET I2 == [I EXCEPT !.Y[i] = [s \in 1..S_(I) |-> @[s] + bump]]
         e1 == Eval(I, a)
         e2 == Eval(I2, a)
     IN e1.lvl >= 1 => (e2.lvl >= 1 /\ e1.d = e2.d /\ e1.cn = e2.cn /\ e1.rn = e2.rn)

(* C07: column s of an S column problem = the single column problem for Y[:,s] *)
ColumnInstance(I, s) == [I EXCEPT !.Y = ColAsMat(Col(I.Y, s))]
ColumnWise(I, a, e) ==
  e.lvl >= 1 => \A s \in 1..S_(I) :
    LET es == Eval(ColumnInstance(I, s), a) IN
    es.lvl >= 1 =>
      /\ es.d = e.d
      /\ Col(es.cn, 1) = Col(e.cn, s)
      /\ Col(es.rn, 1) = Col(e.rn, s)
      /\ (e.lvl >= 2 /\ es.lvl >= 2) =>
            \A k \in 1..I.fam.P : Col(es.jn[k], 1) = Col(e.jn[k], s)

(* C01: linearity in the observations (checked on pairs of columns):       *)
(* the coefficients for Y1+Y2 are the sum, same denominator                *)
Linear(I, a, e) ==
  (e.lvl >= 1 /\ S_(I) >= 2) =>
    LET Isum == [I EXCEPT !.Y = ColAsMat([i \in 1..N_(I) |-> I.Y[i][1] + I.Y[i][2]])]
        es == Eval(Isum, a)
    IN es.lvl >= 1 =>
         /\ es.d = e.d
         /\ \A j \in 1..I.fam.M : es.cn[j][1] = e.cn[j][1] + e.cn[j][2]
=======================================================================
