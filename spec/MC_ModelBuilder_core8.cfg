SPECIFICATION Spec
CONSTANTS Tier = "core"
          MaxDepth = 8
INVARIANTS OkIffValid ErrInDefects KindsOnly ErrorIsPermanent Export
PROPERTIES Sticky PermanentStays
CHECK_DEADLOCK FALSE
