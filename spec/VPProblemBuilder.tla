--------------------------- MODULE VPProblemBuilder ---------------------------
(***************************************************************************)
(* LevMarProblemBuilder as a language of call sequences (property C18).    *)
(*                                                                         *)
(* The builder state is (observations, weights, epsilon), each overwritten *)
(* by later calls.  Property layer: build() = Ok iff the set of defects is *)
(* empty, otherwise the error names a present defect.  Implementation      *)
(* layer: the precedence of today's code (missing -> zero -> rows ->       *)
(* weights).  On Ok the freshly built problem is the VPOracle problem at   *)
(* the model's initial parameters: the expected initial observation is     *)
(* exported as a lattice instance and replayed through the real builder.   *)
(*                                                                         *)
(* The model is the ORTH family (orthogonal columns, singular values known *)
(* on the lattice), so that the effect of the threshold |eps| is decidable:*)
(* eps class "lo" lies below every singular value, "mid" between them.     *)
(***************************************************************************)
EXTENDS VPOracle, TLC, Json

CONSTANTS Tier, MaxLen

VARIABLES L,        \* output length of the model (number of samples), 0..3
          mrhs,     \* constructor flavour: multiple right hand sides?
          y,        \* [set |-> BOOLEAN, r |-> rows, c |-> cols]
          w,        \* -1 (no weights) or the length of the weight vector
          eps,      \* [cls |-> "none" | "lo" | "mid", neg |-> BOOLEAN]
          calls     \* history
vars == <<L, mrhs, y, w, eps, calls>>

Rows == 0..3
ColsFor(m) == IF m THEN 0..2 ELSE {1}       \* single rhs constructors take a vector
WLens == IF Tier = "thorough" THEN 0..4 ELSE {0, 2, 3}
EpsVals == {[cls |-> c, neg |-> n] : c \in {"lo", "mid"}, n \in BOOLEAN}

NoY == [set |-> FALSE, r |-> 0, c |-> 0]
NoEps == [cls |-> "none", neg |-> FALSE]
Init == /\ L \in 0..3 /\ mrhs \in BOOLEAN
        /\ y = NoY /\ w = -1 /\ eps = NoEps /\ calls = <<>>

Observations(r, c) == /\ y' = [set |-> TRUE, r |-> r, c |-> c]
                      /\ calls' = Append(calls, <<"O", r, c>>)
                      /\ UNCHANGED <<L, mrhs, w, eps>>
Weights(n) == /\ w' = n
              /\ calls' = Append(calls, <<"W", n, 0>>)
              /\ UNCHANGED <<L, mrhs, y, eps>>
Epsilon(e) == /\ eps' = e
              /\ calls' = Append(calls, <<"E", IF e.cls = "lo" THEN 0 ELSE 1, IF e.neg THEN 1 ELSE 0>>)
              /\ UNCHANGED <<L, mrhs, y, w>>
Next == /\ Len(calls) < MaxLen
        /\ \/ \E r \in Rows, c \in ColsFor(mrhs) : Observations(r, c)
           \/ \E n \in WLens : Weights(n)
           \/ \E e \in EpsVals : Epsilon(e)
Spec == Init /\ [][Next]_vars

(* ---------------- property layer ---------------- *)
Defects == (IF ~y.set THEN {"YDataMissing"} ELSE {}) \cup
           (IF L = 0 \/ (y.set /\ y.r * y.c = 0) THEN {"ZeroLengthVector"} ELSE {}) \cup
           (IF y.set /\ y.r # L THEN {"InvalidLengthOfData"} ELSE {}) \cup
           (IF y.set /\ w # -1 /\ w # y.r THEN {"InvalidLengthOfWeights"} ELSE {})
Valid == Defects = {}
(* ---------------- implementation layer ---------------- *)
ImplBuild == IF ~y.set THEN "YDataMissing"
             ELSE IF L = 0 \/ y.r * y.c = 0 THEN "ZeroLengthVector"
             ELSE IF y.r # L THEN "InvalidLengthOfData"
             ELSE IF w # -1 /\ w # y.r THEN "InvalidLengthOfWeights"
             ELSE "ok"
OkIffValid == (ImplBuild = "ok") <=> Valid
ErrInDefects == ImplBuild # "ok" => ImplBuild \in Defects

(* ---------------- the problem a successful build yields ---------------- *)
\* data the replay uses for the LAST call of each kind (earlier calls get other data)
YData(r, c) == [i \in 1..r |-> [s \in 1..c |-> ((i * i + s) % 4) - 1]]
\* (alternating signs: the problem carries the weights it was given, not their modulus)
WData(n) == [i \in 1..n |-> IF i % 2 = 0 THEN -2 ELSE 2]
M == IF L >= 2 THEN 2 ELSE 1
Instance == [fam |-> Fam("ORTH", M, 1, 0), x |-> XGrid(L), Y |-> YData(y.r, y.c),
             w |-> IF w = -1 THEN <<>> ELSE WData(w)]
A0 == <<0>>
\* squared singular values of the weighted basis: (j*w)^2, j = 1..M; "mid" = just above the smallest
EpsQ == IF eps.cls = "none" \/ eps.cls = "lo" THEN 0 ELSE IF w = -1 THEN 2 ELSE 8
Expected == IF EpsQ = 0 THEN Eval(Instance, A0) ELSE TruncatedEval(Instance, A0, EpsQ)

RECURSIVE SetToSeq(_)
SetToSeq(S) == IF S = {} THEN <<>> ELSE LET x == CHOOSE z \in S : TRUE IN <<x>> \o SetToSeq(S \ {x})
Point == LET e == Expected IN
   [a |-> A0, phi |-> PhiU(Instance, A0), dphi |-> <<DPhi(Instance.fam, Instance.x, A0, 1)>>,
    lvl |-> 1, rank |-> e.rank, d |-> e.d, cn |-> e.cn, rn |-> VecCM(e.rn), bn |-> <<>>, jn |-> <<>>]
Export ==
  PrintT(<<"VPPB", ToJson([L |-> L, mrhs |-> mrhs, c |-> calls, v |-> Valid, d |-> SetToSeq(Defects), i |-> ImplBuild,
       line |-> IF Valid
                THEN <<[fam |-> Instance.fam, x |-> Instance.x, w |-> Instance.w, Y |-> Instance.Y,
                        yw |-> YW(Instance), epsq |-> EpsQ, pts |-> <<Point>>]>>
                ELSE <<>>])>>)
=======================================================================
