SPECIFICATION Spec
CONSTANTS Tier = "quick"
INVARIANTS NothingTruncatedAtUnitWeights Monotone Export
CHECK_DEADLOCK FALSE
