SPECIFICATION Spec
CONSTANTS NP = 2
          MaxTrials = 5
          Pat = 2
          Stale = TRUE
          NoReset = FALSE
INVARIANTS NeverStale Coherent DoneOk NoStale MustEndOnlyEnds Budget TypeOK
PROPERTY NoRefill
CHECK_DEADLOCK FALSE
