SPECIFICATION Spec
CONSTANTS Tier = "core"
          MaxDepth = 10
INVARIANTS OkIffValid ErrInDefects KindsOnly ErrorIsPermanent Export
PROPERTIES Sticky PermanentStays
CHECK_DEADLOCK FALSE
