SPECIFICATION Spec
CONSTANTS P = 1
 T = 16
 MayFail = TRUE
INVARIANTS ClaimedOnce ResultDeterministic NoneIffFailed NoPartial
POSTCONDITION Accepted
CHECK_DEADLOCK FALSE
