--------------------------- MODULE VPModelBuilder ---------------------------
(***************************************************************************)
(* SeparableModelBuilder as a language of call sequences (property C15).   *)
(*                                                                         *)
(* Two layers over one bounded universe of names, parameter lists and      *)
(* closure arities:                                                        *)
(*  - implementation layer: the three-state builder of the code            *)
(*    (Normal / FunctionBuilding / Error) with its pending function;       *)
(*  - property layer: a monitor that parses the call sequence into         *)
(*    function groups and accumulates the SET of defect kinds present.     *)
(* The property is:  build = Ok  <=>  Defects = {} ;  build = Err(k) =>    *)
(* k \in Defects ; Error is absorbing.  TLC checks that the implementation *)
(* layer refines the property layer, and exports every call sequence with  *)
(* both verdicts for replay against the real builder.                      *)
(***************************************************************************)
EXTENDS Integers, Sequences, FiniteSets, TLC, Json

CONSTANTS Tier, MaxDepth

\* tier "deep": a near-valid universe (no illegal names) enumerated to a larger depth
\* tier "core": two parameters, only well-formed lists with matching arities - the sequences that
\* differ are the ORDER and NUMBER of functions / derivatives / x / initial guess; explored deepest
Names == IF Tier = "thorough" THEN {"a", "b", "c", "z", "a,b"}
         ELSE IF Tier \in {"deep", "core"} THEN {"a", "b"} ELSE {"a", "b", "z", "a,b"}
HasComma(n) == n = "a,b"
ModelLists == IF Tier = "core" THEN {<<"a", "b">>}
              ELSE IF Tier = "deep" THEN {<<"a">>, <<"a", "b">>, <<"b", "a">>}
              ELSE {<<>>, <<"a">>, <<"a", "b">>, <<"b", "a">>, <<"a", "a">>, <<"a,b">>}
                   \cup (IF Tier = "thorough" THEN {<<"a", "b", "c">>} ELSE {})
FunLists == IF Tier = "core" THEN {<<"a">>, <<"b">>, <<"a", "b">>}
            ELSE IF Tier = "deep" THEN {<<"a">>, <<"b">>, <<"a", "b">>, <<"b", "a">>}
            ELSE {<<>>, <<"a">>, <<"b">>, <<"a", "b">>, <<"b", "a">>, <<"a", "a">>, <<"z">>, <<"a,b">>}
                 \cup (IF Tier = "thorough" THEN {<<"c">>, <<"c", "a">>, <<"a", "b", "c">>, <<"a", "z">>} ELSE {})
Arities == IF Tier = "thorough" THEN {1, 2, 3} ELSE {1, 2}
DerivNames == Names \ {"a,b"}
InitLens == IF Tier = "core" THEN {2} ELSE IF Tier = "deep" THEN 1..2 ELSE 0..(IF Tier = "thorough" THEN 4 ELSE 3)

Range(s) == {s[i] : i \in 1..Len(s)}
Dup(s) == Cardinality(Range(s)) # Len(s)
IndexOf(s, n) == CHOOSE i \in 1..Len(s) : s[i] = n

Kinds == {"DuplicateParameterNames", "EmptyParameters", "FunctionParameterNotInModel", "InvalidDerivative",
          "DuplicateDerivative", "MissingDerivative", "EmptyModel", "UnusedParameter", "IncorrectParameterCount",
          "CommaInParameterNameNotAllowed", "MissingX", "MissingInitialParameters", "IllegalCallToPartialDeriv"}

(* ---------------- implementation layer: helper functions of the code ---------------- *)
\* check_parameter_names: first error or "ok"
CheckNames(s) == IF s = <<>> THEN "EmptyParameters"
                 ELSE IF \E n \in Range(s) : HasComma(n) THEN "CommaInParameterNameNotAllowed"
                 ELSE IF Dup(s) THEN "DuplicateParameterNames" ELSE "ok"
\* create_wrapped_basis_function (model parameters are valid whenever this is reached)
Wrap(mp, fp, ar) == IF CheckNames(fp) # "ok" THEN CheckNames(fp)
                    ELSE IF Len(fp) # ar THEN "IncorrectParameterCount"
                    ELSE IF \E n \in Range(fp) : n \notin Range(mp) THEN "FunctionParameterNotInModel"
                    ELSE "ok"

VARIABLES st, err, mp, used, nfun, fb, xset, init,           \* implementation layer
          perm, grp, anyfun, everUsed, mx, goodInit,         \* property layer (monitor)
          calls, dead                                        \* history (what is being enumerated)
ivars == <<st, err, mp, used, nfun, fb, xset, init>>
mvars == <<perm, grp, anyfun, everUsed, mx, goodInit>>
vars == <<ivars, mvars, calls, dead>>
NoFb == [fp |-> <<>>, res |-> "none", derivs |-> {}]
NoGrp == [open |-> FALSE, fp |-> <<>>, got |-> {}]

(* ---------------- property layer ---------------- *)
ModelDefects(m) == (IF m = <<>> THEN {"EmptyParameters"} ELSE {}) \cup
                   (IF \E n \in Range(m) : HasComma(n) THEN {"CommaInParameterNameNotAllowed"} ELSE {}) \cup
                   (IF Dup(m) THEN {"DuplicateParameterNames"} ELSE {})
FunDefects(m, fp, ar) == (IF fp = <<>> THEN {"EmptyParameters"} ELSE {}) \cup
                   (IF \E n \in Range(fp) : HasComma(n) THEN {"CommaInParameterNameNotAllowed"} ELSE {}) \cup
                   (IF Dup(fp) THEN {"DuplicateParameterNames"} ELSE {}) \cup
                   (IF \E n \in Range(fp) : n \notin Range(m) THEN {"FunctionParameterNotInModel"} ELSE {}) \cup
                   (IF Len(fp) # ar THEN {"IncorrectParameterCount"} ELSE {})
\* closing an open group: a missing derivative becomes permanent
CloseDefects(g) == IF g.open /\ (Range(g.fp) \ g.got) # {} THEN {"MissingDerivative"} ELSE {}
\* defects that later calls can still cure, evaluated when build() is called
Curable == (IF ~anyfun THEN {"EmptyModel"} ELSE {}) \cup
           (IF Range(mp) \ everUsed # {} THEN {"UnusedParameter"} ELSE {}) \cup
           (IF ~mx THEN {"MissingX"} ELSE {}) \cup
           (IF ~goodInit THEN {"MissingInitialParameters"} ELSE {}) \cup
           CloseDefects(grp)
Defects == perm \cup Curable
Valid == Defects = {}

(* ---------------- implementation layer ---------------- *)
\* ModelBasisFunctionBuilder::build of the pending function
FinalRes == IF fb.res # "ok" THEN fb.res
            ELSE IF \E n \in Range(fb.fp) : IndexOf(mp, n) \notin fb.derivs THEN "MissingDerivative" ELSE "ok"
\* extend_model: every call in FunctionBuilding first finalises the pending function
AfterFinal == IF st # "FunctionBuilding" THEN [st |-> st, err |-> err, used |-> used, nfun |-> nfun]
              ELSE IF FinalRes = "ok" THEN [st |-> "Normal", err |-> err, used |-> used \cup fb.derivs, nfun |-> nfun + 1]
              ELSE [st |-> "Error", err |-> FinalRes, used |-> used, nfun |-> nfun]
\* build(): what the code returns today
ImplBuild == LET f == AfterFinal IN
             IF f.st = "Error" THEN f.err
             ELSE IF f.nfun = 0 THEN "EmptyModel"
             ELSE IF mp = <<>> THEN "EmptyParameters"
             ELSE IF \E i \in 1..Len(mp) : i \notin f.used THEN "UnusedParameter"
             ELSE IF ~xset THEN "MissingX"
             ELSE IF ~init THEN "MissingInitialParameters" ELSE "ok"

Init == /\ st = "start" /\ err = "none" /\ mp = <<>> /\ used = {} /\ nfun = 0 /\ fb = NoFb
        /\ xset = FALSE /\ init = FALSE
        /\ perm = {} /\ grp = NoGrp /\ anyfun = FALSE /\ everUsed = {} /\ mx = FALSE /\ goodInit = FALSE
        /\ calls = <<>> /\ dead = 0

New(m) ==
  /\ st = "start"
  /\ mp' = m /\ used' = {} /\ nfun' = 0 /\ fb' = NoFb /\ xset' = FALSE /\ init' = FALSE
  /\ IF CheckNames(m) = "ok" THEN st' = "Normal" /\ err' = "none"
                             ELSE st' = "Error" /\ err' = CheckNames(m)
  /\ perm' = ModelDefects(m)
  /\ UNCHANGED <<grp, anyfun, everUsed, mx, goodInit>>
  /\ calls' = Append(calls, <<"N", m, 0>>)

MonClose == perm \cup CloseDefects(grp)

Function(fp, ar) ==
  /\ st # "start"
  /\ LET f == AfterFinal IN
     IF f.st = "Error"
     THEN st' = "Error" /\ err' = f.err /\ fb' = NoFb /\ UNCHANGED <<mp, used, nfun, xset, init>>
     ELSE /\ st' = "FunctionBuilding" /\ err' = f.err /\ used' = f.used /\ nfun' = f.nfun
          /\ fb' = [fp |-> fp, res |-> Wrap(mp, fp, ar), derivs |-> {}]
          /\ UNCHANGED <<mp, xset, init>>
  /\ perm' = MonClose \cup FunDefects(mp, fp, ar)
  /\ grp' = [open |-> TRUE, fp |-> fp, got |-> {}]
  /\ anyfun' = TRUE
  /\ everUsed' = everUsed \cup Range(fp)
  /\ UNCHANGED <<mx, goodInit>>
  /\ calls' = Append(calls, <<"F", fp, ar>>)

PartialDeriv(n, ar) ==
  /\ st # "start"
  /\ CASE st = "Error" -> UNCHANGED ivars
       [] st = "Normal" -> /\ st' = "Error" /\ err' = "IllegalCallToPartialDeriv"
                           /\ UNCHANGED <<mp, used, nfun, fb, xset, init>>
       [] st = "FunctionBuilding" ->
            /\ UNCHANGED <<st, err, mp, used, nfun, xset, init>>
            /\ IF n \in Range(mp) /\ n \in Range(fb.fp)
               THEN IF fb.res # "ok" THEN fb' = fb
                    ELSE IF Wrap(mp, fb.fp, ar) # "ok" THEN fb' = [fb EXCEPT !.res = Wrap(mp, fb.fp, ar)]
                    ELSE IF IndexOf(mp, n) \in fb.derivs THEN fb' = [fb EXCEPT !.res = "DuplicateDerivative"]
                    ELSE fb' = [fb EXCEPT !.derivs = @ \cup {IndexOf(mp, n)}]
               ELSE fb' = [fb EXCEPT !.res = "InvalidDerivative"]
  /\ IF grp.open
     THEN /\ perm' = perm \cup (IF n \notin (Range(grp.fp) \cap Range(mp)) THEN {"InvalidDerivative"} ELSE {})
                         \cup (IF ar # Len(grp.fp) THEN {"IncorrectParameterCount"} ELSE {})
                         \cup (IF n \in grp.got THEN {"DuplicateDerivative"} ELSE {})
          /\ grp' = [grp EXCEPT !.got = @ \cup {n}]
     ELSE /\ perm' = perm \cup {"IllegalCallToPartialDeriv"}
          /\ grp' = grp
  /\ UNCHANGED <<anyfun, everUsed, mx, goodInit>>
  /\ calls' = Append(calls, <<"D", <<n>>, ar>>)

\* invariant_function / independent_variable / initial_parameters
Simple(kind, len) ==
  /\ st # "start"
  /\ LET f == AfterFinal IN
     IF f.st = "Error"
     THEN st' = "Error" /\ err' = f.err /\ fb' = NoFb /\ UNCHANGED <<mp, used, nfun, xset, init>>
     ELSE /\ fb' = NoFb /\ mp' = mp /\ used' = f.used
          /\ CASE kind = "I" -> st' = "Normal" /\ err' = f.err /\ nfun' = f.nfun + 1 /\ UNCHANGED <<xset, init>>
               [] kind = "X" -> st' = "Normal" /\ err' = f.err /\ nfun' = f.nfun /\ xset' = TRUE /\ UNCHANGED init
               [] kind = "P" -> /\ nfun' = f.nfun
                                /\ UNCHANGED xset
                                /\ IF len = Len(mp) THEN st' = "Normal" /\ err' = f.err /\ init' = TRUE
                                   ELSE st' = "Error" /\ err' = "IncorrectParameterCount" /\ init' = init
  /\ perm' = MonClose \cup (IF kind = "P" /\ len # Len(mp) THEN {"IncorrectParameterCount"} ELSE {})
  /\ grp' = NoGrp
  /\ anyfun' = (anyfun \/ kind = "I")
  /\ mx' = (mx \/ kind = "X")
  /\ goodInit' = (goodInit \/ (kind = "P" /\ len = Len(mp)))
  /\ UNCHANGED everUsed
  /\ calls' = Append(calls, <<kind, <<>>, len>>)

\* in the core tier closures always have the arity of the function they belong to
ArityOK(ar, len) == Tier # "core" \/ ar = len
AnyCall == \/ \E m \in ModelLists : New(m)
           \/ \E fp \in FunLists, ar \in Arities : ArityOK(ar, Len(fp)) /\ Function(fp, ar)
           \/ \E n \in DerivNames, ar \in Arities : ArityOK(ar, IF grp.open THEN Len(grp.fp) ELSE 1) /\ PartialDeriv(n, ar)
           \/ Simple("I", 0) \/ Simple("X", 0) \/ \E l \in InitLens : Simple("P", l)

\* the enumeration stops one call after the builder entered its (absorbing) Error state
Next == /\ Len(calls) < MaxDepth
        /\ dead = 0
        /\ AnyCall
        /\ dead' = IF st = "Error" THEN 1 ELSE 0

Spec == Init /\ [][Next]_vars

(* ---------------- properties ---------------- *)
OkIffValid == st # "start" => ((ImplBuild = "ok") <=> Valid)
ErrInDefects == st # "start" => (ImplBuild # "ok" => ImplBuild \in Defects)
KindsOnly == Defects \subseteq Kinds
Sticky == [][st = "Error" => (st' = "Error" /\ err' = err)]_vars
\* once a permanent defect has been recorded nothing makes the specification valid again
PermanentStays == [][perm \subseteq perm']_vars
\* the implementation enters Error only for defects the monitor regards as permanent
ErrorIsPermanent == st = "Error" => err \in perm

\* the history-free automaton: with this VIEW the reachable graph is finite, and TLC decides the
\* refinement (OkIffValid, ErrInDefects, ErrorIsPermanent, Sticky) for call sequences of EVERY length
\* (the number of finished functions only matters as "none / some")
HistoryFreeView == <<st, err, mp, used, IF nfun > 0 THEN 1 ELSE 0, fb, xset, init, mvars, dead>>

(* ---------------- export: one line per call sequence ---------------- *)
RECURSIVE SetToSeq(_)
SetToSeq(S) == IF S = {} THEN <<>> ELSE LET x == CHOOSE y \in S : TRUE IN <<x>> \o SetToSeq(S \ {x})
Export == st # "start" =>
            PrintT(<<"VPMB", ToJson([c |-> calls, v |-> Valid, d |-> SetToSeq(Defects), i |-> ImplBuild])>>)
=======================================================================
