--------------------------- MODULE VPThreshold ---------------------------
(***************************************************************************)
(* The singular value threshold (properties C01, C18), decided on matrices *)
(* whose singular values are known exactly: Phi = diag(1, .., M) padded    *)
(* with zero rows, weights w_j = 2^-k_j, hence sigma_j = j * 2^-k_j.       *)
(*                                                                         *)
(* The threshold is the machine epsilon of the scalar type, 2^-23 (f32) or *)
(* 2^-52 (f64), when the caller gave none, and |eps| = 2^-u when the       *)
(* caller gave +-2^-u.  "At or below the threshold counts as zero":        *)
(*     sigma_j <= 2^-th  <=>  k_j >= th  /\  j <= 2^(k_j - th)             *)
(* Truncated directions get coefficient 0 (minimum norm); for the others   *)
(* the weights cancel: c_j = y_j / j.  Borderline sigma_j = threshold is   *)
(* not enumerated (the decomposition is only accurate to rounding).        *)
(* Supplied thresholds include subnormal numbers and exactly zero: any     *)
(* finite value is used as given.                                          *)
(***************************************************************************)
EXTENDS Integers, Sequences, FiniteSets, TLC, Json

CONSTANTS Tier

Scalars == {"f32", "f64"}
MachEpsExp(sc) == IF sc = "f32" THEN 23 ELSE 52
Exps == {0, 10, 20, 30, 45, 60}
\* ... and one exponent per scalar type for which the weight 2^-k itself is a SUBNORMAL number
\* (2^-1030 in f64, 2^-135 in f32): a finite, non-zero weight like any other.  The row of the model
\* (and of the observations) it belongs to is larger by 2^(k-10), so that the weighted row is an
\* ordinary number again: sigma_j = j * 2^-10 (KEff).
ExpsFor(s) == Exps \cup (IF s = "f64" THEN {1030} ELSE {135})
KEff(k) == IF k > 60 THEN 10 ELSE k
\* user thresholds +-2^-u; u = 140 is a subnormal number in f32, u = 1050 a subnormal number in f64 and
\* underflows to zero in f32; kind "zero" is a threshold of exactly +-0: |eps| = 0, nothing positive is
\* at or below it (what a caller whose basis functions are tiny has to ask for)
Thresholds == {[kind |-> "default", u |-> 0, neg |-> FALSE]}
              \cup {[kind |-> "user", u |-> u, neg |-> n] : u \in {15, 40, 140, 1050}, n \in BOOLEAN}
              \cup {[kind |-> "zero", u |-> 0, neg |-> n] : n \in BOOLEAN}
NoThreshold == 100000
SmallestExp(sc) == IF sc = "f32" THEN 149 ELSE 1074
ThExp(sc, thr) == IF thr.kind = "default" THEN MachEpsExp(sc)
                  ELSE IF thr.kind = "zero" \/ thr.u > SmallestExp(sc) THEN NoThreshold
                  ELSE thr.u

RECURSIVE Pow2(_)
Pow2(n) == IF n = 0 THEN 1 ELSE 2 * Pow2(n - 1)
Truncated(j, k, th) == k >= th /\ (k - th >= 2 \/ j <= Pow2(k - th))
Borderline(j, k, th) == k >= th /\ k - th < 2 /\ j = Pow2(k - th)

VARIABLES sc, M, N, ks, thr, Y
vars == <<sc, M, N, ks, thr, Y>>

YVals == {-2, 1, 3}
\* right hand sides: every single column over YVals (in the thorough tier also with a second column
\* that is a fixed function of the first), and fixed
\* patterns with 3 and 5 columns, so that there are more right hand sides than basis functions
WideY(n, S, v) == [i \in 1..n |-> [s \in 1..S |-> ((i * (s + v) + s * s) % 5) - 2]]
Turn(v) == CASE v = -2 -> 1 [] v = 1 -> 3 [] OTHER -> -2
YChoices(n) == [1..n -> [1..1 -> YVals]]
               \cup (IF Tier = "thorough"
                     THEN {[i \in 1..n |-> <<y[i][1], Turn(y[i][1])>>] : y \in [1..n -> [1..1 -> YVals]]}
                     ELSE {})
               \cup {WideY(n, S, v) : S \in {3, 5}, v \in 0..1}
Init == /\ sc \in Scalars
        /\ M \in 1..(IF Tier = "thorough" THEN 3 ELSE 2)
        /\ N \in {M, M + 1}
        /\ ks \in [1..M -> ExpsFor(sc)]
        /\ thr \in Thresholds
        /\ Y \in YChoices(N)
        /\ \A j \in 1..M : ~Borderline(j, KEff(ks[j]), ThExp(sc, thr))

Next == UNCHANGED vars
Spec == Init /\ [][Next]_vars

Trunc == [j \in 1..M |-> Truncated(j, KEff(ks[j]), ThExp(sc, thr))]
\* coefficient j for right hand side s as numerator / denominator
CoeffNum == [j \in 1..M |-> [s \in 1..Len(Y[1]) |-> IF Trunc[j] THEN 0 ELSE Y[j][s]]]
CoeffDen == [j \in 1..M |-> j]

\* sanity: with all exponents 0 nothing is truncated by any of the thresholds; a larger threshold
\* (smaller exponent) truncates at least as much
NothingTruncatedAtUnitWeights == (\A j \in 1..M : KEff(ks[j]) = 0) => \A j \in 1..M : ~Trunc[j]
Monotone == \A j \in 1..M : Truncated(j, KEff(ks[j]), 40) => Truncated(j, KEff(ks[j]), 15)

Export == PrintT(<<"VPTH", ToJson([scalar |-> sc, M |-> M, N |-> N, ks |-> ks,
            thr |-> [kind |-> thr.kind, u |-> thr.u, neg |-> thr.neg], Y |-> Y,
            trunc |-> Trunc, cn |-> CoeffNum, cd |-> CoeffDen])>>)
=======================================================================
