--------------------------- MODULE VPThreshold ---------------------------
(***************************************************************************)
(* The singular value threshold (properties C01, C18), decided on matrices *)
(* whose singular values are known exactly: Phi = diag(1, .., M) padded    *)
(* with zero rows, weights w_j = 2^-k_j, hence sigma_j = j * 2^-k_j.       *)
(*                                                                         *)
(* The threshold is the machine epsilon of the scalar type, 2^-23 (f32) or *)
(* 2^-52 (f64), when the caller gave none, and |eps| = 2^-u when the       *)
(* caller gave +-2^-u.  "At or below the threshold counts as zero":        *)
(*     sigma_j <= 2^-th  <=>  k_j >= th  /\  j <= 2^(k_j - th)             *)
(* Truncated directions get coefficient 0 (minimum norm); for the others   *)
(* the weights cancel: c_j = y_j / j.  Borderline sigma_j = threshold is   *)
(* not enumerated (the decomposition is only accurate to rounding).        *)
(***************************************************************************)
EXTENDS Integers, Sequences, FiniteSets, TLC, Json

CONSTANTS Tier

Scalars == {"f32", "f64"}
MachEpsExp(sc) == IF sc = "f32" THEN 23 ELSE 52
Exps == {0, 10, 20, 30, 45, 60}
Thresholds == {[kind |-> "default", u |-> 0, neg |-> FALSE]}
              \cup {[kind |-> "user", u |-> u, neg |-> n] : u \in {15, 40}, n \in BOOLEAN}
ThExp(sc, thr) == IF thr.kind = "default" THEN MachEpsExp(sc) ELSE thr.u

RECURSIVE Pow2(_)
Pow2(n) == IF n = 0 THEN 1 ELSE 2 * Pow2(n - 1)
Truncated(j, k, th) == k >= th /\ (k - th >= 2 \/ j <= Pow2(k - th))
Borderline(j, k, th) == k >= th /\ k - th < 2 /\ j = Pow2(k - th)

VARIABLES sc, M, N, ks, thr, Y
vars == <<sc, M, N, ks, thr, Y>>

YVals == {-2, 1, 3}
Init == /\ sc \in Scalars
        /\ M \in 1..(IF Tier = "thorough" THEN 3 ELSE 2)
        /\ N \in {M, M + 1}
        /\ ks \in [1..M -> Exps]
        /\ thr \in Thresholds
        /\ Y \in [1..N -> [1..(IF Tier = "thorough" THEN 2 ELSE 1) -> YVals]]
        /\ \A j \in 1..M : ~Borderline(j, ks[j], ThExp(sc, thr))
Next == UNCHANGED vars
Spec == Init /\ [][Next]_vars

Trunc == [j \in 1..M |-> Truncated(j, ks[j], ThExp(sc, thr))]
\* coefficient j for right hand side s as numerator / denominator
CoeffNum == [j \in 1..M |-> [s \in 1..Len(Y[1]) |-> IF Trunc[j] THEN 0 ELSE Y[j][s]]]
CoeffDen == [j \in 1..M |-> j]

\* sanity: with all exponents 0 nothing is truncated by any of the thresholds; a larger threshold
\* (smaller exponent) truncates at least as much
NothingTruncatedAtUnitWeights == (\A j \in 1..M : ks[j] = 0) => \A j \in 1..M : ~Trunc[j]
Monotone == \A j \in 1..M : Truncated(j, ks[j], 40) => Truncated(j, ks[j], 15)

Export == PrintT(<<"VPTH", ToJson([scalar |-> sc, M |-> M, N |-> N, ks |-> ks,
            thr |-> [kind |-> thr.kind, u |-> thr.u, neg |-> thr.neg], Y |-> Y,
            trunc |-> Trunc, cn |-> CoeffNum, cd |-> CoeffDen])>>)
=======================================================================
