SPECIFICATION Spec
CONSTANT Strict = {"C12"}
POSTCONDITION Accepted
CHECK_DEADLOCK FALSE
