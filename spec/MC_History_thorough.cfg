SPECIFICATION Spec
CONSTANTS Tier = "thorough"
INVARIANTS Coherent Export
PROPERTIES NoStale QueriesPure
CHECK_DEADLOCK FALSE
