--------------------------- MODULE VPLinAlg ---------------------------
(***************************************************************************)
(* Exact integer linear algebra used by the varpro specification.          *)
(*                                                                         *)
(* Matrices are sequences of rows, vectors are sequences.  Everything is   *)
(* division free: rational results are carried as integer numerators over  *)
(* an explicit common denominator.  TLC's integers are 32 bit and overflow *)
(* aborts the run, therefore every product that is not provably small is   *)
(* guarded by the saturating bound SafeMM/SafeScale (see VPOracle).        *)
(***************************************************************************)
EXTENDS Integers, Sequences, FiniteSets, TLC

(* TLC builds [i \in S |-> e] lazily and re-evaluates e on every application; a chain of
   lazily built matrices is re-evaluated exponentially often.  E(v) forces the value. *)
E(v) == TLCEval(v)

Abs(v) == IF v < 0 THEN -v ELSE v
Sgn(v) == IF v < 0 THEN -1 ELSE IF v > 0 THEN 1 ELSE 0

RECURSIVE GcdN(_, _)
GcdN(a, b) == IF b = 0 THEN a ELSE GcdN(b, a % b)
Gcd(a, b) == GcdN(Abs(a), Abs(b))

RECURSIVE SumSeq(_)
SumSeq(s) == IF s = <<>> THEN 0 ELSE Head(s) + SumSeq(Tail(s))

SetMax(S) == IF S = {} THEN 0 ELSE CHOOSE m \in S : \A n \in S : n <= m

NRows(A) == Len(A)
NCols(A) == IF Len(A) = 0 THEN 0 ELSE Len(A[1])
Col(A, j) == E([i \in 1..Len(A) |-> A[i][j]])
Dot(u, v) == SumSeq([i \in 1..Len(u) |-> u[i] * v[i]])
T(A) == E([j \in 1..NCols(A) |-> Col(A, j)])
MM(A, B) == E([i \in 1..Len(A) |-> E([j \in 1..NCols(B) |-> Dot(A[i], Col(B, j))])])
MV(A, v) == E([i \in 1..Len(A) |-> Dot(A[i], v)])
Scale(t, A) == E([i \in 1..Len(A) |-> E([j \in 1..NCols(A) |-> t * A[i][j]])])
ScaleV(t, v) == E([i \in 1..Len(v) |-> t * v[i]])
Add(A, B) == E([i \in 1..Len(A) |-> E([j \in 1..NCols(A) |-> A[i][j] + B[i][j]])])
Sub(A, B) == E([i \in 1..Len(A) |-> E([j \in 1..NCols(A) |-> A[i][j] - B[i][j]])])
SubV(u, v) == E([i \in 1..Len(u) |-> u[i] - v[i]])
Neg(A) == Scale(-1, A)
Gram(A) == MM(T(A), A)
IsZero(A) == \A i \in 1..Len(A) : \A j \in 1..NCols(A) : A[i][j] = 0
IsZeroV(v) == \A i \in 1..Len(v) : v[i] = 0
Identity(n) == E([i \in 1..n |-> E([j \in 1..n |-> IF i = j THEN 1 ELSE 0])])
ColsOf(A, js) == E([i \in 1..Len(A) |-> E([k \in 1..Len(js) |-> A[i][js[k]]])])   \* js: sequence of column indices
ColAsMat(v) == E([i \in 1..Len(v) |-> <<v[i]>>])
HCat(A, B) == E([i \in 1..Len(A) |-> A[i] \o B[i]])

(* row scaling by a diagonal weight matrix; the empty sequence means "no weights" *)
RowScale(w, A) == IF w = <<>> THEN A
                  ELSE E([i \in 1..Len(A) |-> E([j \in 1..NCols(A) |-> w[i] * A[i][j]])])
RowScaleV(w, v) == IF w = <<>> THEN v ELSE E([i \in 1..Len(v) |-> w[i] * v[i]])

(* column-major stacking: block s of the result is column s of A *)
VecCM(A) == LET n == Len(A) IN
            E([k \in 1..(n * NCols(A)) |-> A[((k - 1) % n) + 1][((k - 1) \div n) + 1]])
(* row-major stacking, only used to state that it differs *)
VecRM(A) == LET m == NCols(A) IN
            E([k \in 1..(Len(A) * m) |-> A[((k - 1) \div m) + 1][((k - 1) % m) + 1]])

RECURSIVE MaxAbsFrom(_, _)
Max2(a, b) == IF a > b THEN a ELSE b
MaxAbsFrom(v, i) == IF i > Len(v) THEN 0 ELSE Max2(Abs(v[i]), MaxAbsFrom(v, i + 1))
MaxAbsV(v) == MaxAbsFrom(v, 1)
MaxAbs(A) == MaxAbsV(E([i \in 1..Len(A) |-> MaxAbsV(A[i])]))

Minor(A, r, c) == E([i \in 1..(Len(A) - 1) |-> E([j \in 1..(Len(A) - 1) |-> A[IF i < r THEN i ELSE i + 1][IF j < c THEN j ELSE j + 1]])])
RECURSIVE Det(_)
Det(A) == IF Len(A) = 0 THEN 1
          ELSE IF Len(A) = 1 THEN A[1][1]
          ELSE IF Len(A) = 2 THEN A[1][1] * A[2][2] - A[1][2] * A[2][1]
          ELSE SumSeq([j \in 1..Len(A) |->
                         (IF j % 2 = 1 THEN 1 ELSE -1) * A[1][j] * Det(Minor(A, 1, j))])
Adj(A) == IF Len(A) = 1 THEN << <<1>> >>
          ELSE E([i \in 1..Len(A) |-> E([j \in 1..Len(A) |-> (IF (i + j) % 2 = 0 THEN 1 ELSE -1) * Det(Minor(A, j, i))])])

(***************************************************************************)
(* Saturating arithmetic for the overflow gate.  Limit is far enough below *)
(* 2^31 that sums of Limit-bounded terms inside a Dot of length <= 8 are   *)
(* never formed: callers bound the whole sum, not the terms.               *)
(***************************************************************************)
Limit == 1000000000
SatMul(a, b) == IF a = 0 \/ b = 0 THEN 0
                ELSE IF a >= Limit \/ b >= Limit THEN Limit
                ELSE IF a > Limit \div b THEN Limit ELSE a * b
SatAdd(a, b) == IF a >= Limit \/ b >= Limit THEN Limit
                ELSE IF a + b >= Limit THEN Limit ELSE a + b
(* a matrix product A*B is safe when  inner * max|A| * max|B| < Limit *)
BoundMM(A, B) == SatMul(NCols(A), SatMul(MaxAbs(A), MaxAbs(B)))
SafeMM(A, B) == BoundMM(A, B) < Limit
BoundScale(t, A) == SatMul(Abs(t), MaxAbs(A))

(***************************************************************************)
(* Rank: lexicographically first maximal set of independent columns,       *)
(* decided by Gram determinants of column subsets (orders <= 3).           *)
(***************************************************************************)
RECURSIVE SeqOfSet(_)
SeqOfSet(S) == IF S = {} THEN <<>>
               ELSE LET m == CHOOSE x \in S : \A y \in S : x <= y IN <<m>> \o SeqOfSet(S \ {m})
Independent(A, S) == S = {} \/ Det(Gram(ColsOf(A, SeqOfSet(S)))) # 0
RECURSIVE GreedyBasis(_, _, _)
GreedyBasis(A, j, S) == IF j > NCols(A) THEN S
                        ELSE IF Independent(A, S \cup {j}) THEN GreedyBasis(A, j + 1, S \cup {j})
                        ELSE GreedyBasis(A, j + 1, S)
RankBasis(A) == SeqOfSet(GreedyBasis(A, 1, {}))
Rank(A) == Len(RankBasis(A))

RECURSIVE GcdSeq(_)
GcdSeq(s) == IF s = <<>> THEN 0 ELSE Gcd(Head(s), GcdSeq(Tail(s)))
GcdMat(A) == GcdSeq([i \in 1..Len(A) |-> GcdSeq(A[i])])
DivMat(A, g) == E([i \in 1..Len(A) |-> E([j \in 1..NCols(A) |-> A[i][j] \div g])])
=======================================================================
