SPECIFICATION Spec
CONSTANTS P = 3
          T = 3
          MayFail = TRUE
INVARIANTS ClaimedOnce ResultDeterministic NoneIffFailed NoPartial
CHECK_DEADLOCK FALSE
