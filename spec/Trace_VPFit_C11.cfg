SPECIFICATION Spec
CONSTANT Strict = {"C11"}
POSTCONDITION Accepted
CHECK_DEADLOCK FALSE
