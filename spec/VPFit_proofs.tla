--------------------------- MODULE VPFit_proofs ---------------------------
(***************************************************************************)
(* Unbounded safety of the protocol of VPFit, machine-checked with TLAPS.   *)
(*                                                                         *)
(* MC_VPFit explores the protocol exhaustively for NP = 2 and five          *)
(* parameter vectors.  Here the same statement is proved for every number   *)
(* of parameters, every patience, any number of updates and any provenance  *)
(* ids: in the protocol WITHOUT the named deviations (Stale*Eval, keep)     *)
(* the cache a problem exposes always belongs to the parameters the model   *)
(* holds (Coherent: C02 / C09 / C10 at the design level), and a step out of *)
(* a "parameter application failed" phase never refills the cache           *)
(* (NoRefill: C09).                                                         *)
(*                                                                         *)
(* The conformance side (Trace_VPFit) shows that the recorded executions of *)
(* the implementation are behaviours of exactly these actions.             *)
(*                                                                         *)
(* check:  tlapm --threads 8 -I <dir of VPFit.tla> VPFit_proofs.tla         *)
(***************************************************************************)
EXTENDS VPFit, TLAPS

B == BOOLEAN

\* every action of VPFit except the named deviations, with unconstrained arguments
CoreNext ==
  \/ \E p \in Nat : BuildStart(p)
  \/ \E a \in Nat, ok \in B : BuildSet(a, ok)
  \/ \E ok \in B : BuildEval(ok)
  \/ BuildEnd
  \/ \E a \in Nat, ok \in B : CSet(a, ok)
  \/ \E ok \in B : CSetEval(ok, FALSE)
  \/ CSetEnd
  \/ \E k \in Nat, ok \in B : CJacDeriv(k, ok)
  \/ CJacEnd
  \/ \E pat \in Nat, ws \in B, sj \in B : FitStart(pat, ws, sj)
  \/ \E k \in Nat, ok \in B : Deriv(k, ok)
  \/ \E a \in Nat, ok \in B : TrialSet(a, ok)
  \/ \E ok \in B : EvalAfterFailedSet(ok)
  \/ \E ok \in B, dec \in Decisions : TrialEval(ok, dec, FALSE)
  \/ \E a \in Nat, ok \in B : ResetSet(a, ok)
  \/ \E ok \in B : ResetEval(ok, FALSE)
  \/ FitEndStep
  \/ \E ok \in B : StatCall(ok)
  \/ StatsEndStep
  \/ \E ok \in B : PostEval(ok)
  \/ \E ok \in B : CSameEval(ok)
  \/ \E ok \in B, dec \in Decisions : TrialSameEval(ok, dec)
  \/ \E ok \in B : ResetSameEval(ok)
  \/ \E a \in Nat, ok \in B : TrialSetMemo(a, ok)
  \/ \E a \in Nat, ok \in B : BuildSameEval(a, ok)

CoreSpec == Init0 /\ [][CoreNext]_fvars

NoRefillStep == phase \in {"buildsetfailed", "csetfailed", "setfailed"} => own' = -1

LEMMA InitCoherent == Init0 => Coherent
  BY DEF Init0, Coherent, Pending

LEMMA StepCoherent == Coherent /\ [CoreNext]_fvars => Coherent'
<1> SUFFICES ASSUME Coherent, [CoreNext]_fvars PROVE Coherent'
  OBVIOUS
<1>1. CASE UNCHANGED fvars
  BY <1>1 DEF fvars, Coherent, Pending
<1>2. CASE \E p \in Nat : BuildStart(p)
  BY <1>2 DEF BuildStart, Coherent, Pending
<1>3. CASE \E a \in Nat, ok \in B : BuildSet(a, ok)
  BY <1>3 DEF BuildSet, Coherent, Pending, B
<1>4. CASE \E ok \in B : BuildEval(ok)
  BY <1>4 DEF BuildEval, Coherent, Pending, B
<1>5. CASE BuildEnd
  BY <1>5 DEF BuildEnd, Coherent, Pending
<1>6. CASE \E a \in Nat, ok \in B : CSet(a, ok)
  BY <1>6 DEF CSet, Coherent, Pending, B
<1>7. CASE \E ok \in B : CSetEval(ok, FALSE)
  BY <1>7 DEF CSetEval, Coherent, Pending, B
<1>8. CASE CSetEnd
  BY <1>8 DEF CSetEnd, Coherent, Pending
<1>9. CASE \E k \in Nat, ok \in B : CJacDeriv(k, ok)
  BY <1>9 DEF CJacDeriv, Coherent, Pending, B
<1>10. CASE CJacEnd
  BY <1>10 DEF CJacEnd, Coherent, Pending
<1>11. CASE \E pat \in Nat, ws \in B, sj \in B : FitStart(pat, ws, sj)
  BY <1>11 DEF FitStart, Coherent, Pending, B
<1>12. CASE \E k \in Nat, ok \in B : Deriv(k, ok)
  BY <1>12 DEF Deriv, Coherent, Pending, B
<1>13. CASE \E a \in Nat, ok \in B : TrialSet(a, ok)
  BY <1>13 DEF TrialSet, Coherent, Pending, B
<1>14. CASE \E ok \in B : EvalAfterFailedSet(ok)
  BY <1>14 DEF EvalAfterFailedSet, Coherent, Pending, B
<1>15. CASE \E ok \in B, dec \in Decisions : TrialEval(ok, dec, FALSE)
  BY <1>15 DEF TrialEval, Decisions, Coherent, Pending, B
<1>16. CASE \E a \in Nat, ok \in B : ResetSet(a, ok)
  BY <1>16 DEF ResetSet, Coherent, Pending, B
<1>17. CASE \E ok \in B : ResetEval(ok, FALSE)
  BY <1>17 DEF ResetEval, Coherent, Pending, B
<1>18. CASE FitEndStep
  BY <1>18 DEF FitEndStep, Terminable, Coherent, Pending
<1>19. CASE \E ok \in B : StatCall(ok)
  BY <1>19 DEF StatCall, Terminable, Coherent, Pending, B
<1>20. CASE StatsEndStep
  BY <1>20 DEF StatsEndStep, Terminable, Coherent, Pending
<1>21. CASE \E ok \in B : PostEval(ok)
  BY <1>21 DEF PostEval, fvars, Coherent, Pending, B
<1>22. CASE \E ok \in B : CSameEval(ok)
  BY <1>22 DEF CSameEval, Coherent, Pending, B
<1>23. CASE \E ok \in B, dec \in Decisions : TrialSameEval(ok, dec)
  BY <1>23 DEF TrialSameEval, Decisions, Coherent, Pending, B
<1>24. CASE \E ok \in B : ResetSameEval(ok)
  BY <1>24 DEF ResetSameEval, Coherent, Pending, B
<1>25. CASE \E a \in Nat, ok \in B : TrialSetMemo(a, ok)
  BY <1>25 DEF TrialSetMemo, Coherent, Pending, B
<1>26. CASE \E a \in Nat, ok \in B : BuildSameEval(a, ok)
  BY <1>26 DEF BuildSameEval, Coherent, Pending, B
<1> QED
  BY <1>1, <1>2, <1>3, <1>4, <1>5, <1>6, <1>7, <1>8, <1>9, <1>10, <1>11, <1>12,
     <1>13, <1>14, <1>15, <1>16, <1>17, <1>18, <1>19, <1>20, <1>21, <1>22, <1>23, <1>24, <1>25, <1>26 DEF CoreNext

THEOREM CoherentAlways == CoreSpec => []Coherent
<1>1. Init0 => Coherent
  BY InitCoherent
<1>2. Coherent /\ [CoreNext]_fvars => Coherent'
  BY StepCoherent
<1> QED
  BY <1>1, <1>2, PTL DEF CoreSpec

\* ---------------------------------------------------------------------------------
\* C09 as an action property: no step leaving a "parameter application failed" phase fills the cache
FailedPhases == {"buildsetfailed", "csetfailed", "setfailed"}
FailedEmpty == phase \in FailedPhases => own = -1

LEMMA InitFailedEmpty == Init0 => FailedEmpty
  BY DEF Init0, FailedEmpty, FailedPhases

LEMMA StepFailedEmpty == FailedEmpty /\ [CoreNext]_fvars => FailedEmpty' /\ NoRefillStep
<1> SUFFICES ASSUME FailedEmpty, [CoreNext]_fvars PROVE FailedEmpty' /\ NoRefillStep
  OBVIOUS
<1> USE DEF FailedEmpty, FailedPhases, NoRefillStep, B
<1>1. CASE UNCHANGED fvars
  BY <1>1 DEF fvars
<1>2. CASE \E p \in Nat : BuildStart(p)
  BY <1>2 DEF BuildStart
<1>3. CASE \E a \in Nat, ok \in B : BuildSet(a, ok)
  BY <1>3 DEF BuildSet
<1>4. CASE \E ok \in B : BuildEval(ok)
  BY <1>4 DEF BuildEval
<1>5. CASE BuildEnd
  BY <1>5 DEF BuildEnd
<1>6. CASE \E a \in Nat, ok \in B : CSet(a, ok)
  BY <1>6 DEF CSet
<1>7. CASE \E ok \in B : CSetEval(ok, FALSE)
  BY <1>7 DEF CSetEval
<1>8. CASE CSetEnd
  BY <1>8 DEF CSetEnd
<1>9. CASE \E k \in Nat, ok \in B : CJacDeriv(k, ok)
  BY <1>9 DEF CJacDeriv
<1>10. CASE CJacEnd
  BY <1>10 DEF CJacEnd
<1>11. CASE \E pat \in Nat, ws \in B, sj \in B : FitStart(pat, ws, sj)
  BY <1>11 DEF FitStart
<1>12. CASE \E k \in Nat, ok \in B : Deriv(k, ok)
  BY <1>12 DEF Deriv
<1>13. CASE \E a \in Nat, ok \in B : TrialSet(a, ok)
  BY <1>13 DEF TrialSet
<1>14. CASE \E ok \in B : EvalAfterFailedSet(ok)
  BY <1>14 DEF EvalAfterFailedSet
<1>15. CASE \E ok \in B, dec \in Decisions : TrialEval(ok, dec, FALSE)
  BY <1>15 DEF TrialEval, Decisions
<1>16. CASE \E a \in Nat, ok \in B : ResetSet(a, ok)
  BY <1>16 DEF ResetSet
<1>17. CASE \E ok \in B : ResetEval(ok, FALSE)
  BY <1>17 DEF ResetEval
<1>18. CASE FitEndStep
  BY <1>18 DEF FitEndStep, Terminable
<1>19. CASE \E ok \in B : StatCall(ok)
  BY <1>19 DEF StatCall, Terminable
<1>20. CASE StatsEndStep
  BY <1>20 DEF StatsEndStep, Terminable
<1>21. CASE \E ok \in B : PostEval(ok)
  BY <1>21 DEF PostEval, fvars
<1>22. CASE \E ok \in B : CSameEval(ok)
  BY <1>22 DEF CSameEval
<1>23. CASE \E ok \in B, dec \in Decisions : TrialSameEval(ok, dec)
  BY <1>23 DEF TrialSameEval, Decisions
<1>24. CASE \E ok \in B : ResetSameEval(ok)
  BY <1>24 DEF ResetSameEval
<1>25. CASE \E a \in Nat, ok \in B : TrialSetMemo(a, ok)
  BY <1>25 DEF TrialSetMemo
<1>26. CASE \E a \in Nat, ok \in B : BuildSameEval(a, ok)
  BY <1>26 DEF BuildSameEval
<1> QED
  BY <1>1, <1>2, <1>3, <1>4, <1>5, <1>6, <1>7, <1>8, <1>9, <1>10, <1>11, <1>12,
     <1>13, <1>14, <1>15, <1>16, <1>17, <1>18, <1>19, <1>20, <1>21, <1>22, <1>23, <1>24, <1>25, <1>26 DEF CoreNext

THEOREM NoRefillAlways == CoreSpec => [][NoRefillStep]_fvars
<1>1. Init0 => FailedEmpty
  BY InitFailedEmpty
<1>2. FailedEmpty /\ [CoreNext]_fvars => FailedEmpty' /\ NoRefillStep
  BY StepFailedEmpty
<1> QED
  BY <1>1, <1>2, PTL DEF CoreSpec
=======================================================================
