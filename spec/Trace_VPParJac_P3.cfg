SPECIFICATION Spec
CONSTANTS P = 3
 T = 16
 MayFail = TRUE
INVARIANTS ClaimedOnce ResultDeterministic NoneIffFailed NoPartial
POSTCONDITION Accepted
CHECK_DEADLOCK FALSE
