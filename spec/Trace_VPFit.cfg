SPECIFICATION Spec
CONSTANT Strict = {"C02", "C04", "C09", "C12"}
POSTCONDITION Accepted
CHECK_DEADLOCK FALSE
