SPECIFICATION Spec
CONSTANT Strict = {}
POSTCONDITION Accepted
CHECK_DEADLOCK FALSE
