SPECIFICATION Spec
CONSTANTS Tier = "quick"
          MaxDepth = 6
INVARIANTS OkIffValid ErrInDefects KindsOnly ErrorIsPermanent Export
PROPERTIES Sticky PermanentStays
CHECK_DEADLOCK FALSE
