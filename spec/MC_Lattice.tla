--------------------------- MODULE MC_Lattice ---------------------------
(***************************************************************************)
(* Exhaustive enumeration of the lattice of VP problem instances.          *)
(* One reachable state at stage 2 = one instance (family, N, weights, Y);  *)
(* for every instance the theorems of VPOracle are checked at every        *)
(* lattice alpha, and the instance is exported with its exact expected     *)
(* observables (one JSON line) for replay into the implementation.         *)
(***************************************************************************)
EXTENDS VPOracle, TLC, Json

CONSTANTS Tier,          \* "quick" | "thorough" | "tiny"
          Part           \* 0 = everything, k > 0: only families with index % Parts = k-1 (unused: 0)

VARIABLES stage, inst, out      \* out: evaluation at every lattice alpha (sequence)
vars == <<stage, inst, out>>

Families ==
  IF Tier = "tiny" THEN {Fam("Q2", 2, 1, 0), Fam("TAB", 2, 1, 0), Fam("R2", 2, 1, 0)}
  ELSE (PolyFamilies \ {Fam("W3", 3, 1, 0)})
       \cup {Fam("TAB", m, p, s) : m \in 1..3, p \in 1..2, s \in 0..1}
       \cup {Fam("TABZ", m, 2, 0) : m \in 2..3}
       \* more parameters than basis functions (P >= M + 2): thin lattices, see AlphaValsFor
       \cup {Fam("TAB", 1, 3, 0), Fam("TAB", 2, 4, 0)}
       \cup (IF Tier = "thorough"
             THEN {Fam("TAB", m, 3, 1) : m \in 1..3} \cup {Fam("W3", 3, 1, 0)} \cup {Fam("TAB", 1, 4, 1)}
                  \cup {Fam("TAB", 4, 1, 0)}
                  \cup {Fam("TAB", m, p, s) : m \in 1..3, p \in 1..2, s \in 2..3}
             ELSE {})

NsFor(f) == IF f.name = "W3" THEN {2}
            ELSE IF Tier = "thorough" THEN {n \in 2..5 : n >= f.M}
                 \cup (IF f.name = "TAB" /\ f.M >= 2 /\ f.P <= 2 /\ f.seed <= 1 THEN {f.M - 1} ELSE {})
            ELSE IF Tier = "tiny" THEN {3}
            ELSE {n \in 3..4 : n >= f.M}
                 \* square and nearly square weighted basis matrices (N = M) for the tabulated families
                 \cup (IF f.name = "TAB" /\ f.M = 2 /\ f.P = 1 THEN {2} ELSE {})
                 \* under-determined problems (N < M): the minimum norm solution is required
                 \cup (IF f.name = "TAB" /\ f.M >= 2 /\ f.P = 1 /\ f.seed = 0 THEN {f.M - 1} ELSE {})

AlphaVals == IF Tier = "thorough" THEN <<-1, 0, 1, 2>> ELSE <<-1, 0, 1>>
(* three-parameter families get a thinner lattice *)
AlphaValsFor(f) == IF f.P >= 3 THEN <<0, 1>> ELSE AlphaVals

RECURSIVE Pow(_, _)
Pow(b, e) == IF e = 0 THEN 1 ELSE b * Pow(b, e - 1)
AlphaSeq(P, vals) == LET n == Len(vals) IN
  [q \in 1..Pow(n, P) |-> [k \in 1..P |-> vals[(((q - 1) \div Pow(n, k - 1)) % n) + 1]]]

WPattern(id, N) ==
  CASE id = 0 -> <<>>
    [] id = 1 -> [i \in 1..N |-> 1]
    [] id = 2 -> [i \in 1..N |-> IF i = 2 THEN 2 ELSE IF i = 3 THEN 0 ELSE 1]
    [] id = 3 -> [i \in 1..N |-> IF i = 1 THEN -1 ELSE IF i = 3 THEN 2 ELSE 1]
    [] id = 4 -> [i \in 1..N |-> 0]
    [] id = 5 -> [i \in 1..N |-> IF i = N THEN 2 ELSE 0]
    [] id = 6 -> [i \in 1..N |-> IF i % 2 = 0 THEN -1 ELSE 2]
    [] id = 7 -> [i \in 1..N |-> ((i * 3) % 4) - 1]
WIds == IF Tier = "thorough" THEN 0..7 ELSE IF Tier = "tiny" THEN {0, 2} ELSE 0..3

YCol(id, N) ==
  CASE id = 1 -> [i \in 1..N |-> ((i * i + 1) % 4) - 1]
    [] id = 2 -> [i \in 1..N |-> ((3 * i) % 5) - 2]
    [] id = 3 -> [i \in 1..N |-> 2]
    [] id = 4 -> [i \in 1..N |-> IF i = 1 THEN -1 ELSE 0]
    [] id = 5 -> [i \in 1..N |-> i - 2]
    [] id = 6 -> [i \in 1..N |-> 0]
    [] id = 7 -> [i \in 1..N |-> IF i % 2 = 0 THEN 2 ELSE -2]
YIds == IF Tier = "thorough" THEN 1..7 ELSE IF Tier = "tiny" THEN 1..2 ELSE 1..4
(* observation matrices: every column from the catalogue, all ordered pairs  *)
(* (including duplicated columns), and triples in the thorough tier          *)
YChoices == {<<c>> : c \in YIds}
            \cup {<<c1, c2>> : c1 \in YIds, c2 \in YIds}
            \cup (IF Tier = "thorough"
                  THEN {<<c1, c2, c3>> : c1 \in 1..3, c2 \in 2..5, c3 \in {1, 5, 6}} \cup {<<1, 2, 3, 4>>, <<4, 4, 2, 1, 3>>}
                  ELSE IF Tier = "quick" THEN {<<1, 2, 3>>, <<2, 2, 4>>, <<3, 1, 2, 4>>}
                  ELSE {})
YMat(cols, N) == [i \in 1..N |-> [s \in 1..Len(cols) |-> YCol(cols[s], N)[i]]]

Init == stage = 0 /\ inst = <<>> /\ out = <<>>
Pick1 == /\ stage = 0
         /\ stage' = 1
         /\ out' = <<>>
         /\ \E f \in Families : \E n \in NsFor(f) : \E wid \in WIds :
               inst' = [fam |-> f, x |-> XGrid(n), w |-> WPattern(wid, n), wid |-> wid]
Pick2 == /\ stage = 1
         /\ stage' = 2
         /\ \E yc \in YChoices :
               LET I == [fam |-> inst.fam, x |-> inst.x, w |-> inst.w, wid |-> inst.wid,
                         Y |-> YMat(yc, Len(inst.x)), ycols |-> yc]
                   al == AlphaSeq(I.fam.P, AlphaValsFor(I.fam))
               IN /\ inst' = I
                  /\ out' = E([q \in 1..Len(al) |-> Eval(I, al[q])])
Next == Pick1 \/ Pick2
Spec == Init /\ [][Next]_vars

Alphas == AlphaSeq(inst.fam.P, AlphaValsFor(inst.fam))

(* ---------- theorems, checked on every complete instance at every alpha ---------- *)
AtAll(Th(_, _, _)) == stage = 2 => \A q \in 1..Len(Alphas) :
                          Th(inst, Alphas[q], out[q])
ThNormalEq   == AtAll(NormalEq)
ThMinNorm    == AtAll(MinNorm)
ThObjIsResid == AtAll(ObjIsResid)
ThJacPerp    == AtAll(JacPerp)
ThGradient   == AtAll(Gradient)
ThColumnWise == AtAll(ColumnWise)
ThLinear     == AtAll(Linear)
ThUnitIsNone == stage = 2 => \A q \in 1..Len(Alphas) : UnitIsNone(inst, Alphas[q])
ThZeroWeight == stage = 2 => \A q \in 1..Len(Alphas) : ZeroWeightIgnoresSample(inst, Alphas[q], 3)
ThDeriv      == (stage = 1 /\ inst.fam \in PolyFamilies) =>
                   \A q \in 1..Len(Alphas) : DerivIsDerivative(inst.fam, inst.x, Alphas[q])
(* ---------- export ---------- *)
Point(q) ==
  LET e == out[q]
      a == Alphas[q]
      P == inst.fam.P
  IN [a |-> a,
      phi |-> PhiU(inst, a),
      dphi |-> [k \in 1..P |-> DPhi(inst.fam, inst.x, a, k)],
      lvl |-> e.lvl,
      rank |-> e.rank,
      d |-> IF e.lvl >= 1 THEN e.d ELSE 0,
      cn |-> IF e.lvl >= 1 THEN e.cn ELSE <<>>,
      rn |-> IF e.lvl >= 1 THEN VecCM(e.rn) ELSE <<>>,
      bn |-> IF e.lvl >= 1 /\ "bn" \in DOMAIN e THEN e.bn ELSE <<>>,
      jn |-> IF e.lvl >= 2 THEN [k \in 1..P |-> VecCM(e.jn[k])] ELSE <<>>]
Export == stage = 2 =>
  PrintT(<<"VPX", ToJson([fam |-> inst.fam, x |-> inst.x, w |-> inst.w, wid |-> inst.wid,
                          Y |-> inst.Y, ycols |-> inst.ycols, yw |-> YW(inst),
                          pts |-> [q \in 1..Len(Alphas) |-> Point(q)]])>>)
=======================================================================
