SPECIFICATION Spec
CONSTANTS Tier = "tiny"
          Part = 0
INVARIANTS ThNormalEq ThMinNorm ThObjIsResid ThJacPerp ThGradient ThColumnWise ThLinear ThUnitIsNone ThZeroWeight ThDeriv Export
CHECK_DEADLOCK FALSE
