--------------------------- MODULE VPParJac ---------------------------
(***************************************************************************)
(* The parallel Jacobian (property C11): P columns are distributed over    *)
(* worker threads by a work stealing scheduler.  Any idle thread may claim *)
(* any unclaimed column; each column is written by exactly one task; after *)
(* a failed derivative the remaining columns may or may not be computed    *)
(* (a short-circuiting parallel collect gives no guarantee); the call      *)
(* returns None iff some derivative failed, otherwise a matrix in which    *)
(* column k was computed from derivative k - whatever the interleaving.    *)
(***************************************************************************)
EXTENDS Integers, FiniteSets, TLC

CONSTANTS P,        \* number of columns (nonlinear parameters)
          T,        \* number of worker threads
          MayFail   \* BOOLEAN: derivatives may fail

VARIABLES unclaimed, running, col, failed, ret
pvars == <<unclaimed, running, col, failed, ret>>

Cols == 0..(P - 1)
Threads == 1..T
Idle == -1
Unwritten == -1

PInit == /\ unclaimed = Cols
         /\ running = [t \in Threads |-> Idle]
         /\ col = [k \in Cols |-> Unwritten]
         /\ failed = FALSE
         /\ ret = "pending"

Claim(t, k) ==
  /\ ret = "pending"
  /\ running[t] = Idle
  /\ k \in unclaimed
  /\ unclaimed' = unclaimed \ {k}
  /\ running' = [running EXCEPT ![t] = k]
  /\ UNCHANGED <<col, failed, ret>>

\* the task of thread t finishes: it writes its own column (token = the derivative index it used)
Finish(t, ok) ==
  /\ ret = "pending"
  /\ running[t] # Idle
  /\ (ok \/ MayFail)
  /\ running' = [running EXCEPT ![t] = Idle]
  /\ col' = IF ok THEN [col EXCEPT ![running[t]] = running[t]] ELSE col
  /\ failed' = (failed \/ ~ok)
  /\ UNCHANGED <<unclaimed, ret>>

Return ==
  /\ ret = "pending"
  /\ \A t \in Threads : running[t] = Idle
  /\ (failed \/ unclaimed = {})           \* without a failure every column is computed
  /\ ret' = IF failed THEN "none" ELSE "some"
  /\ UNCHANGED <<unclaimed, running, col, failed>>

PNext == \/ \E t \in Threads, k \in Cols : Claim(t, k)
         \/ \E t \in Threads, ok \in BOOLEAN : Finish(t, ok)
         \/ Return
PSpec == PInit /\ [][PNext]_pvars

(* ---------------- properties ---------------- *)
\* a column is in at most one place: unclaimed, being computed by exactly one thread, or done
ClaimedOnce == \A k \in Cols :
   Cardinality({t \in Threads : running[t] = k}) + (IF k \in unclaimed THEN 1 ELSE 0) <= 1
\* the result does not depend on the schedule: a returned matrix has column k from derivative k
ResultDeterministic == ret = "some" => \A k \in Cols : col[k] = k
NoneIffFailed == ret # "pending" => ((ret = "none") <=> failed)
NoPartial == ret = "some" => \A k \in Cols : col[k] # Unwritten
=======================================================================
