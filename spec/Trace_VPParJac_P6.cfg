SPECIFICATION Spec
CONSTANTS P = 6
 T = 16
 MayFail = TRUE
INVARIANTS ClaimedOnce ResultDeterministic NoneIffFailed NoPartial
POSTCONDITION Accepted
CHECK_DEADLOCK FALSE
