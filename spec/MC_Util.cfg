SPECIFICATION Spec
CONSTANTS Tier = "quick"
INVARIANTS Export
CHECK_DEADLOCK FALSE
