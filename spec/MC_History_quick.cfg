SPECIFICATION Spec
CONSTANTS Tier = "quick"
INVARIANTS Coherent Export
PROPERTIES NoStale QueriesPure
CHECK_DEADLOCK FALSE
