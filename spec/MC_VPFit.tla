--------------------------- MODULE MC_VPFit ---------------------------
(***************************************************************************)
(* The protocol of VPFit model-checked on its own: every order of          *)
(* accept / reject / terminate decisions, faults at any model call.        *)
(* The optimizer is modelled as the levenberg-marquardt crate behaves:     *)
(* it terminates after a rejected step only after re-applying the accepted *)
(* parameters (NoReset = TRUE removes that and must violate DoneOk).       *)
(***************************************************************************)
EXTENDS VPFit

CONSTANTS NP, MaxTrials, Pat, NoReset, Stale

VARIABLES nextAid
vars == <<fvars, nextAid>>

Init == Init0 /\ nextAid = 0
B == BOOLEAN
Fresh == nextAid' = nextAid + 1
Same == nextAid' = nextAid

LMTerminable == Terminable /\ (phase = "trial" => (NoReset \/ tgt = acc))

Next ==
  \/ (phase = "idle" /\ BuildStart(NP) /\ Same)
  \/ (\E ok \in B : BuildSet(nextAid, ok) /\ Fresh)
  \/ (\E ok \in B : BuildEval(ok) /\ Same)
  \/ (BuildEnd /\ Same)
  \/ (nextAid < MaxTrials /\ \E ok \in B : CSet(nextAid, ok) /\ Fresh)
  \/ (\E ok \in B, keep \in B : (keep => Stale) /\ CSetEval(ok, keep) /\ Same)
  \/ (CSetEnd /\ Same)
  \/ (\E k \in 0..(NP - 1), ok \in B : CJacDeriv(k, ok) /\ Same)
  \/ (CJacEnd /\ Same)
  \/ (phase \in {"built", "done"} /\ FitStart(Pat, FALSE, own # -1) /\ Same)
  \/ (\E k \in 0..(NP - 1), ok \in B : Deriv(k, ok) /\ Same)
  \/ (nextAid < MaxTrials /\ nfev < Pat * (NP + 1) /\ \E ok \in B : TrialSet(nextAid, ok) /\ Fresh)
  \/ (\E ok \in B : EvalAfterFailedSet(ok) /\ Same)
  \/ (\E ok \in B, dec \in Decisions, keep \in B : (keep => Stale) /\ TrialEval(ok, dec, keep) /\ Same)
  \/ (\E ok \in B : ResetSet(acc, ok) /\ Same)
  \/ (\E ok \in B, keep \in B : (keep => Stale) /\ ResetEval(ok, keep) /\ Same)
  \/ (LMTerminable /\ FitEndStep /\ Same)
  \/ (Stale /\ \E ok \in B : StaleBuildEval(ok) /\ Same)
  \/ (Stale /\ \E ok \in B : StaleCSetEval(ok) /\ Same)
  \/ (Stale /\ \E ok \in B, dec \in Decisions : StaleTrialEval(ok, dec) /\ Same)
  \/ (Stale /\ nextAid < MaxTrials /\ CSetSkip(nextAid) /\ Fresh)
  \/ (Stale /\ nextAid < MaxTrials /\ nfev < Pat * (NP + 1) /\ \E dec \in Decisions : TrialSetSkip(nextAid, dec) /\ Fresh)
  \/ (Stale /\ ResetSetSkip(acc) /\ Same)
Spec == Init /\ [][Next]_vars

(* ---- termination of a fit (C04 budget, C08 "fit returns") at the design level ----
   The optimizer's own steps, with the derivative calls of one Jacobian restricted to indices not
   yet seen (the trace specification also admits repetitions).  Under weak fairness of these steps
   every fit that was started returns: the evaluation budget bounds the trial steps, a Jacobian has
   finitely many columns, and after a rejected last step one re-application precedes the return. *)
OptStep ==
  \/ (\E k \in pend, ok \in B : Deriv(k, ok) /\ Same)
  \/ (nextAid < MaxTrials /\ nfev < Pat * (NP + 1) /\ \E ok \in B : TrialSet(nextAid, ok) /\ Fresh)
  \/ (\E ok \in B : EvalAfterFailedSet(ok) /\ Same)
  \/ (\E ok \in B, dec \in Decisions : TrialEval(ok, dec, FALSE) /\ Same)
  \/ (\E ok \in B : ResetSet(acc, ok) /\ Same)
  \/ (\E ok \in B : ResetEval(ok, FALSE) /\ Same)
  \/ (LMTerminable /\ FitEndStep /\ Same)
FitPhases == {"jac", "jacfailed", "trial", "eval", "setfailed", "mustend", "reseteval", "resetsetfailed", "end"}
LiveNext ==
  \/ (phase = "idle" /\ BuildStart(NP) /\ Same)
  \/ (\E ok \in B : BuildSet(nextAid, ok) /\ Fresh)
  \/ (\E ok \in B : BuildEval(ok) /\ Same)
  \/ (BuildEnd /\ Same)
  \/ (nextAid < MaxTrials /\ \E ok \in B : CSet(nextAid, ok) /\ Fresh)
  \/ (\E ok \in B : CSetEval(ok, FALSE) /\ Same)
  \/ (CSetEnd /\ Same)
  \/ (phase \in {"built", "done"} /\ FitStart(Pat, FALSE, own # -1) /\ Same)
  \/ OptStep
LiveSpec == Init /\ [][LiveNext]_vars /\ WF_vars(OptStep)
FitTerminates == (phase \in FitPhases) ~> (phase = "done")

\* C04: a fit that ends without any failure leaves the accepted parameters in the model,
\* with the cache computed for them
DoneOk == (phase = "done" /\ ~faultSeen /\ ~seenNone) => (tgt = acc /\ own = acc)
\* C09: at every point where the caller / optimizer can look, whatever is cached is current
NeverStale == (own # -1 /\ ~Pending) => own = tgt
\* C09: after a failure during an update nothing is exposed; whatever is exposed is current
NoStale == Coherent
\* C09 as an action property: a step out of a "parameter application failed" phase never fills the cache
NoRefillStep == phase \in {"buildsetfailed", "csetfailed", "setfailed"} => own' = 0 - 1
NoRefill == [][NoRefillStep]_vars
\* C09: an optimizer that accepted parameters holds a model with exactly those parameters
AcceptedAreApplied == (phase \in {"jac", "trial"} /\ ~faultSeen) => (own # -1 => own = tgt)
\* C09: an optimizer that was handed an absent value is in a phase from which only a failing end follows
MustEndOnlyEnds == phase \in {"mustend", "jacfailed", "setfailed"} => seenNone
Budget == nfev <= Pat * (NP + 1)
=======================================================================
