SPECIFICATION Spec
CONSTANT Strict = {"C09"}
POSTCONDITION Accepted
CHECK_DEADLOCK FALSE
