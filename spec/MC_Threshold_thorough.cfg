SPECIFICATION Spec
CONSTANTS Tier = "thorough"
INVARIANTS NothingTruncatedAtUnitWeights Monotone Export
CHECK_DEADLOCK FALSE
