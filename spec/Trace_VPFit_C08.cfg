SPECIFICATION Spec
CONSTANT Strict = {"C08"}
POSTCONDITION Accepted
CHECK_DEADLOCK FALSE
