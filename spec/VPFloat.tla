--------------------------- MODULE VPFloat ---------------------------
(***************************************************************************)
(* IEEE-754 value classes propagated through the weighting of basis matrix *)
(* and observations (property C08).                                        *)
(*                                                                         *)
(* Floats are abstracted to classes; the product table is deterministic    *)
(* where IEEE-754 is (Inf*Zero = NaN, NaN*x = NaN, Normal*Inf = Inf) and   *)
(* set valued where the magnitude matters (Huge*Normal may overflow).      *)
(* The specification only makes DEFINITE predictions:                      *)
(*   - every call returns (no panic, no hang) - for every placement;       *)
(*   - if the weighted basis matrix certainly contains a non-finite entry  *)
(*     the fit cannot succeed (and the problem exposes nothing);           *)
(*   - if the weighted observations certainly contain a non-finite entry   *)
(*     the fit cannot succeed.                                             *)
(***************************************************************************)
EXTENDS Integers, Sequences, FiniteSets, TLC, Json

CONSTANTS Tier

Classes == {"Z", "N", "H", "T", "PI", "NI", "NaN"}
Special == Classes \ {"N"}
NonFin == {"Inf", "NaN"}
\* result classes: Z, T, N, H (finite) and Inf, NaN
Mul(a, b) ==
  LET inf(c) == c \in {"PI", "NI"}
  IN IF a = "NaN" \/ b = "NaN" THEN {"NaN"}
     ELSE IF (inf(a) /\ b = "Z") \/ (a = "Z" /\ inf(b)) THEN {"NaN"}
     ELSE IF inf(a) \/ inf(b) THEN {"Inf"}
     ELSE IF a = "Z" \/ b = "Z" THEN {"Z"}
     ELSE IF a = "H" /\ b = "H" THEN {"Inf"}
     ELSE IF a = "H" /\ b = "N" THEN {"N", "H", "Inf"}
     ELSE IF a = "N" /\ b = "H" THEN {"N", "H", "Inf"}
     ELSE IF a = "H" \/ b = "H" THEN {"Z", "T", "N", "H"}        \* Huge * Tiny
     ELSE IF a = "T" /\ b = "T" THEN {"Z"}
     ELSE IF a = "T" \/ b = "T" THEN {"Z", "T", "N"}
     ELSE {"N", "H", "T", "Z", "Inf"}                            \* Normal * Normal: anything finite, or overflow
CertainlyNonFinite(S) == S \subseteq NonFin
Lift(c) == IF c \in {"PI", "NI"} THEN {"Inf"} ELSE {c}           \* class of an unweighted entry

(* shapes and positions *)
Shapes == IF Tier = "thorough"
          THEN {<<2, 1, 1>>, <<3, 2, 1>>, <<3, 2, 2>>, <<3, 1, 2>>, <<4, 2, 1>>}
          ELSE {<<2, 1, 1>>, <<3, 2, 1>>, <<3, 2, 2>>}
Positions(sh) == LET N == sh[1] M == sh[2] S == sh[3] IN
     {<<"phi0", i, j>> : i \in 1..N, j \in 1..M} \cup {<<"phi1", i, j>> : i \in 1..N, j \in 1..M}
     \cup {<<"d0", i, j>> : i \in 1..N, j \in 1..M} \cup {<<"y", i, s>> : i \in 1..N, s \in 1..S}
     \cup {<<"w", i, 1>> : i \in 1..N} \cup {<<"a0", 1, 1>>}

VARIABLES shape, weighted, specials     \* specials: set of <<position, class>>
vars == <<shape, weighted, specials>>

Init == /\ shape \in Shapes /\ weighted \in BOOLEAN /\ specials = {}
Place == /\ Cardinality(specials) < 2
         /\ \E pos \in Positions(shape), c \in Special :
               /\ (pos[1] = "w" => weighted)
               /\ ~\E s \in specials : s[1] = pos
               \* pairs are enumerated completely only for the smallest shape (quick tier)
               /\ (Cardinality(specials) = 1 => (Tier = "thorough" \/ shape = <<2, 1, 1>> \/ c \in {"NaN", "PI", "Z"}))
               /\ specials' = specials \cup {<<pos, c>>}
         /\ UNCHANGED <<shape, weighted>>
Next == Place
Spec == Init /\ [][Next]_vars

ClassAt(pos) == IF \E s \in specials : s[1] = pos THEN (CHOOSE s \in specials : s[1] = pos)[2] ELSE "N"
WClass(i) == IF weighted THEN ClassAt(<<"w", i, 1>>) ELSE "one"
Weighted(what, i, j) == IF ~weighted THEN Lift(ClassAt(<<what, i, j>>)) ELSE Mul(WClass(i), ClassAt(<<what, i, j>>))
PhiWNonFinite(which) == \E i \in 1..shape[1], j \in 1..shape[2] : CertainlyNonFinite(Weighted(which, i, j))
YWNonFinite == \E i \in 1..shape[1], s \in 1..shape[3] : CertainlyNonFinite(Weighted("y", i, s))

(* predictions *)
MustReturn == TRUE
Absent0 == PhiWNonFinite("phi0")
Absent1 == PhiWNonFinite("phi1")
FitMustFail == Absent0 \/ YWNonFinite

\* sanity of the table: commutative; NaN absorbing; zero times infinity is NaN
TableOK == /\ \A a, b \in Classes : Mul(a, b) = Mul(b, a)
           /\ \A a \in Classes : Mul("NaN", a) = {"NaN"}
           /\ Mul("Z", "PI") = {"NaN"} /\ Mul("NI", "Z") = {"NaN"}
           /\ \A a, b \in Classes : Mul(a, b) # {}

RECURSIVE SetToSeq(_)
SetToSeq(S) == IF S = {} THEN <<>> ELSE LET x == CHOOSE y \in S : TRUE IN <<x>> \o SetToSeq(S \ {x})
Export == PrintT(<<"VPFL", ToJson([N |-> shape[1], M |-> shape[2], S |-> shape[3], weighted |-> weighted,
             specials |-> SetToSeq({[where |-> s[1][1], i |-> s[1][2], j |-> s[1][3], cls |-> s[2]] : s \in specials}),
             absent0 |-> Absent0, absent1 |-> Absent1, fit_must_fail |-> FitMustFail])>>)
=======================================================================
