--------------------------- MODULE Trace_VPFit ---------------------------
(***************************************************************************)
(* Trace specification: a recorded execution (ndjson, one event per model  *)
(* call and per public call) is accepted iff it is a behaviour of VPFit in *)
(* which every property guard of the properties listed in Strict holds.    *)
(* Unlogged decisions (did the optimizer accept the step?) are left to     *)
(* TLC.  Many runs are concatenated; a BuildStart event begins a new run.  *)
(***************************************************************************)
EXTENDS VPFit, Json, IOUtils

CONSTANT Strict          \* subset of {"C02","C04","C05","C08","C09","C10","C11","C12"}

Rec == ndJsonDeserialize(IOEnv.TRACE)

VARIABLE l,
         jset     \* provenance ids for which a complete Jacobian has been computed since the problem was built
vars == <<fvars, l, jset>>
Ev == Rec[l]
Is(e) == l <= Len(Rec) /\ Ev.ev = e
Consume == l' = l + 1
G(ids, cond) == (ids \cap Strict # {}) => cond
InSeq(x, s) == \E i \in 1..Len(s) : s[i] = x

Init == l = 1 /\ Init0 /\ jset = {}
\* a Jacobian delivered without derivative calls is a behaviour when no state property is being judged,
\* or when the problem has computed one before for exactly the parameters it holds and its cache is theirs
MemoOk == (Strict \cap {"C02", "C03", "C04", "C05", "C09", "C10"} = {}) \/ (tgt \in jset /\ own = tgt)

TrBuildStart == Is("BuildStart") /\ BuildStart(Ev.P) /\ Consume
TrBuildSet == Is("MSet") /\ BuildSet(Ev.aid, Ev.ok) /\ Consume
TrBuildEval == Is("MEval") /\ BuildEval(Ev.ok) /\ Consume
\* what a problem exposes must be absent or owned by the parameters it reports
StateGuards(ids) ==
  /\ G(ids, Ev.present = (own # -1))
  /\ G(ids, Ev.params = tgt)
  /\ G(ids, Ev.present => InSeq(own, Ev.owners))
TrBuildEnd ==
  /\ Is("BuildEnd")
  /\ BuildEnd
  /\ Consume
  /\ (Ev.ok => StateGuards({"C09", "C02", "C10"}))

TrCSet == Is("MSet") /\ CSet(Ev.aid, Ev.ok) /\ Consume
NoC09 == "C09" \notin Strict
TrCSetEval == Is("MEval") /\ (\E keep \in BOOLEAN : (keep => NoC09) /\ CSetEval(Ev.ok, keep)) /\ Consume
\* executions of the named deviation D2 are behaviours only while C09 is not being judged
TrStaleBuildEval == Is("MEval") /\ "C09" \notin Strict /\ StaleBuildEval(Ev.ok) /\ Consume
TrStaleCSetEval == Is("MEval") /\ "C09" \notin Strict /\ StaleCSetEval(Ev.ok) /\ Consume
TrStaleTrialEval == Is("MEval") /\ "C09" \notin Strict /\ (\E dec \in Decisions : StaleTrialEval(Ev.ok, dec)) /\ Consume
\* an update without evaluation is a behaviour while no state property is being judged, or when the
\* cache already belongs to the new parameters (memoisation is legitimate: C10)
SkipOk(aid) == (Strict \cap {"C02", "C04", "C09", "C10", "C05"} = {}) \/ own = aid
TrCSetSkip == Is("MSet") /\ Ev.ok /\ SkipOk(Ev.aid) /\ CSetSkip(Ev.aid) /\ Consume
TrTrialSetSkip == Is("MSet") /\ Ev.ok /\ SkipOk(Ev.aid) /\ (\E dec \in Decisions : TrialSetSkip(Ev.aid, dec)) /\ Consume
TrResetSetSkip == Is("MSet") /\ Ev.ok /\ SkipOk(Ev.aid) /\ ResetSetSkip(Ev.aid) /\ Consume
\* the model's parameters are not re-applied when it already holds them (the evaluation is repeated)
TrBuildSameEval == Is("MEval") /\ BuildSameEval(Ev.aid, Ev.ok) /\ Consume
TrCSameEval == Is("MEval") /\ Ev.aid = tgt /\ CSameEval(Ev.ok) /\ Consume
TrTrialSameEval == Is("MEval") /\ Ev.aid = tgt /\ (\E dec \in Decisions : TrialSameEval(Ev.ok, dec)) /\ Consume
TrResetSameEval == Is("MEval") /\ Ev.aid = tgt /\ ResetSameEval(Ev.ok) /\ Consume
TrCSetEnd ==
  /\ Is("CSetEnd") /\ CSetEnd /\ Consume /\ StateGuards({"C09", "C02", "C10"})
  \* a present cache after an update means the update went through: the problem then reports the
  \* parameters the caller asked for
  /\ G({"C09", "C02", "C10"}, own # -1 => Ev.params = Ev.req)
TrCJacDeriv ==
  /\ Is("MDeriv")
  /\ CJacDeriv(Ev.k, Ev.ok)
  /\ Consume
  \* derivatives are only evaluated for a present cache
  /\ G({"C09"}, own # -1)
TrCJacEnd ==
  /\ Is("CJacEnd")
  /\ CJacEnd
  /\ Consume
  \* no Jacobian unless the cache is present and every derivative evaluated (C03/C09)
  \* (without derivative calls only from a legitimate memo, or when the coefficients are exactly zero:
  \* every column -(I-P) W D_k C then vanishes whatever the derivatives are - a lazy implementation
  \* that does not ask the model is correct)
  /\ G({"C09", "C03"}, Ev.present => (CJacPresent \/ (phase \in {"built", "done"} /\ (MemoOk \/ Ev.czero))))
  \* a problem with a present cache delivers its Jacobian, whatever its history (C10), in particular
  \* the problem a fit handed back (C04: the final problem, C02: one single state)
  /\ G({"C10", "C04", "C02", "C09"}, CJacDue => Ev.present)
  \* ... and it is the Jacobian of a freshly built problem at the same parameters
  /\ G({"C10", "C04", "C02"}, Ev.fresh)

TrFitStart ==
  /\ Is("FitStart")
  /\ \E sj \in BOOLEAN : /\ FitStart(Ev.patience, Ev.stats, sj)
                          \* the optimizer gets residuals at the start iff the cache is present
                          /\ G({"C09", "C04"}, sj = (own # -1))
  /\ Consume
TrDeriv == Is("MDeriv") /\ Deriv(Ev.k, Ev.ok) /\ Consume
TrTrialSet == Is("MSet") /\ TrialSet(Ev.aid, Ev.ok) /\ Consume
TrTrialSetAfterFailedJac == Is("MSet") /\ (Strict \cap {"C02", "C03", "C04", "C05", "C09", "C10"} = {}) /\ TrialSetAfterFailedJac(Ev.aid, Ev.ok) /\ Consume
TrPostFitSet == Is("MSet") /\ (Strict \cap {"C02", "C03", "C04", "C05", "C09", "C10"} = {}) /\ PostFitSet(Ev.aid, Ev.ok) /\ Consume
TrTrialSetMemo == Is("MSet") /\ MemoOk /\ TrialSetMemo(Ev.aid, Ev.ok) /\ Consume
TrEvalAfterFailedSet == Is("MEval") /\ EvalAfterFailedSet(Ev.ok) /\ Consume
TrTrialEval == Is("MEval") /\ (\E dec \in Decisions, keep \in BOOLEAN : (keep => NoC09) /\ TrialEval(Ev.ok, dec, keep)) /\ Consume
TrResetSet == Is("MSet") /\ ResetSet(Ev.aid, Ev.ok) /\ Consume
TrResetEval == Is("MEval") /\ (\E keep \in BOOLEAN : (keep => NoC09) /\ ResetEval(Ev.ok, keep)) /\ Consume

\* guards on what fit() hands back; evaluated in the state BEFORE the step
EndGuards ==
  /\ G({"C04"}, Ev.ok = (Ev.term \in Succ))
  /\ G({"C04"}, Ev.nfev = nfev /\ nfev <= patience * (np + 1) /\ nevals <= nfev)
  /\ G({"C04", "C02"}, (Ev.ok /\ ~faultSeen) =>
        /\ Ev.params = acc /\ tgt = acc
        /\ Ev.present /\ InSeq(acc, Ev.owners)
        /\ Ev.objrank = Ev.frank[acc + 1]
        /\ Ev.frank[acc + 1] <= Ev.frank[aid0 + 1])
  \* what is handed back belongs together: residuals = W(Y - Phi(alpha) C) for the returned alpha and C,
  \* objective = |residuals|^2 / 2 (recomputed by the harness from its own model; digested into a boolean)
  /\ G({"C04", "C02"}, ~faultSeen => Ev.coherent)
  \* ... and with "the residuals are literally zero" only when they are
  /\ G({"C04"}, Ev.term = "ResidualsZero" => Ev.rzero)
  /\ G({"C09"}, seenNone => (~Ev.ok /\ Ev.term = "User"))
  \* truthfulness of the failure report: the optimizer gives up with "User" only after it has
  \* really been handed an absent value
  /\ G({"C04", "C09"}, Ev.term = "User" => seenNone)
  /\ StateGuards({"C09", "C02"})
  \* C05: on certified instances the harness digests the numerical facts
  /\ G({"C05"}, Ev.certified => (Ev.ok /\ Ev.noworse /\ Ev.orth /\ Ev.reproduces))
TrFitEnd ==
  /\ Is("FitEnd")
  /\ ~stats
  /\ FitEndStep
  /\ Consume
  /\ EndGuards

TrStatDeriv == Is("MDeriv") /\ StatCall(Ev.ok) /\ Consume
TrStatEval == Is("MEval") /\ StatCall(Ev.ok) /\ Consume
TrStatsEnd ==
  /\ Is("StatsEnd")
  /\ StatsEndStep
  /\ Consume
  /\ EndGuards
  \* C12: Ok only with positive degrees of freedom, a successful fit and no model failure
  /\ G({"C12", "C09"}, Ev.sok => (Ev.N > Ev.M + np /\ Ev.ok /\ ~statFault /\ ~seenNone))
  \* the defining identities of the statistics hold for what was reported (digested by the harness):
  \* weighted residuals = final residuals, chi2 (N-M-P) = |r_w|^2, sigma^2 = chi2
  /\ G({"C12"}, Ev.sok => Ev.identity)
  \* statistics are only attempted after a successful fit
  /\ G({"C12"}, phase = "stats" => Ev.ok)

TrPostEval == Is("MEval") /\ PostEval(Ev.ok) /\ Consume
TrBestFit ==
  /\ Is("BestFit")
  /\ phase = "done"
  /\ UNCHANGED fvars
  /\ Consume
  /\ G({"C09", "C02"}, Ev.present => own # -1)

\* the steps that complete a Jacobian record its owner; a new problem starts with none
JacDone == own # -1 /\ ((phase' = "trial" /\ phase = "jac") \/ (phase' = "cjac" /\ pend' = {}))
Next == \/ (TrBuildStart /\ jset' = {})
        \/ ((TrDeriv \/ TrCJacDeriv) /\ jset' = IF JacDone THEN jset \cup {tgt} ELSE jset)
        \/ (/\ \/ TrBuildSet \/ TrBuildEval \/ TrBuildEnd
               \/ TrCSet \/ TrCSetEval \/ TrCSetEnd \/ TrCJacEnd
               \/ TrFitStart \/ TrTrialSet \/ TrTrialSetMemo \/ TrTrialSetAfterFailedJac \/ TrPostFitSet \/ TrEvalAfterFailedSet \/ TrTrialEval
               \/ TrResetSet \/ TrResetEval \/ TrFitEnd
               \/ TrStaleBuildEval \/ TrStaleCSetEval \/ TrStaleTrialEval
               \/ TrCSetSkip \/ TrTrialSetSkip \/ TrResetSetSkip
               \/ TrBuildSameEval \/ TrCSameEval \/ TrTrialSameEval \/ TrResetSameEval
               \/ TrStatDeriv \/ TrStatEval \/ TrStatsEnd \/ TrPostEval \/ TrBestFit
            /\ UNCHANGED jset)
Spec == Init /\ [][Next]_vars

\* accepted iff some behaviour consumed every event
Accepted == IF TLCGet("stats").diameter - 1 = Len(Rec) THEN TRUE
            ELSE Print(<<"TRACE-REJECTED", TLCGet("stats").diameter - 1, Len(Rec)>>, FALSE)
=======================================================================
