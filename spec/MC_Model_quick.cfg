SPECIFICATION Spec
CONSTANTS Tier = "quick"
INVARIANTS CurShape ZeroIffIndependent ArgsByName
CHECK_DEADLOCK FALSE
