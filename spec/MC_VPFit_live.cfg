SPECIFICATION LiveSpec
CONSTANTS NP = 2
          MaxTrials = 5
          Pat = 2
          Stale = FALSE
          NoReset = FALSE
INVARIANTS Coherent Budget TypeOK
PROPERTY FitTerminates
CHECK_DEADLOCK FALSE
