SPECIFICATION Spec
CONSTANTS Tier = "quick"
          MaxDepth = 1000000
VIEW HistoryFreeView
INVARIANTS OkIffValid ErrInDefects KindsOnly ErrorIsPermanent
PROPERTIES Sticky PermanentStays
CHECK_DEADLOCK FALSE
