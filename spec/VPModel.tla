--------------------------- MODULE VPModel ---------------------------
(***************************************************************************)
(* A builder-made SeparableModel as an object (properties C16, C17).       *)
(*                                                                         *)
(* Static configuration (chosen in Init): the model parameter list, the    *)
(* basis functions with their ORDERED parameter lists (<<>> = invariant    *)
(* function), the order in which derivatives were supplied, and at most    *)
(* one user closure that returns a vector of the wrong length.             *)
(* State: cur, the parameter vector last applied successfully.             *)
(*                                                                         *)
(* Values are symbolic but positional: the closure of function j returns   *)
(* (arg_1, .., arg_r, 50+j, 0, ..) and its derivative with respect to its  *)
(* i-th own parameter (arg_1, .., arg_r, 100*j+i, 0, ..).  The             *)
(* specification computes the same numbers BY NAME.  Sums and products are *)
(* avoided on purpose: they are blind to swapped arguments.                *)
(***************************************************************************)
EXTENDS Integers, Sequences, FiniteSets, TLC, Json

CONSTANTS Tier

Range(s) == {s[i] : i \in 1..Len(s)}
IndexOf(s, n) == CHOOSE i \in 1..Len(s) : s[i] = n
Injective(s) == Cardinality(Range(s)) = Len(s)

(* ---------------- configurations ---------------- *)
AllNames == IF Tier = "quick" THEN {"a", "b", "c"} ELSE {"a", "b", "c", "d"}
SeqsOver(S, n) == {s \in [1..n -> S] : Injective(s)}
OrderedSubsets(S) == UNION {SeqsOver(S, n) : n \in 1..Cardinality(S)}
ModelLists == OrderedSubsets(AllNames)
MaxFuns == 2
Big == <<"p1", "p2", "p3", "p4", "p5", "p6", "p7", "p8", "p9", "p10">>

NoBad == [j |-> 0, which |-> 0, how |-> "ok"]
\* which = 0: the function itself; which = i > 0: the derivative w.r.t. its i-th own parameter
BadChoices(funs) == {NoBad} \cup
   UNION {{[j |-> j, which |-> wh, how |-> h] : wh \in 0..Len(funs[j].ps), h \in {"short", "long", "empty"}} :
            j \in 1..Len(funs)}

FunChoices(mp) == {[ps |-> ps, dord |-> o] : ps \in OrderedSubsets(Range(mp)) \cup {<<>>}, o \in {"fwd", "rev"}}
Covers(mp, funs) == Range(mp) \subseteq UNION {Range(funs[j].ps) : j \in 1..Len(funs)}
\* dord only matters for functions with at least two parameters
Canonical(funs) == \A j \in 1..Len(funs) : Len(funs[j].ps) < 2 => funs[j].dord = "fwd"

ConfigsFor(mp) == {[mp |-> mp, funs |-> funs, bad |-> NoBad] :
                      funs \in UNION {[1..n -> FunChoices(mp)] : n \in 1..MaxFuns}}
\* four model parameters (thorough tier): the first function takes all four in any order, the optional
\* second one an ordered subset of at most two (or is invariant); six of the 24 model orders
FullPerms(mp) == {[ps |-> ps, dord |-> o] : ps \in SeqsOver(Range(mp), 4), o \in {"fwd", "rev"}}
SmallFuns(mp) == {[ps |-> ps, dord |-> o] :
                     ps \in {<<>>} \cup SeqsOver(Range(mp), 1) \cup SeqsOver(Range(mp), 2), o \in {"fwd", "rev"}}
ConfigsFor4(mp) == {[mp |-> mp, funs |-> <<f1>>, bad |-> NoBad] : f1 \in FullPerms(mp)}
                   \cup {[mp |-> mp, funs |-> <<f1, f2>>, bad |-> NoBad] : f1 \in FullPerms(mp), f2 \in SmallFuns(mp)}
                   \cup {[mp |-> mp, funs |-> <<f2, f1>>, bad |-> NoBad] : f1 \in FullPerms(mp), f2 \in SmallFuns(mp)}
SmallConfigs == UNION {ConfigsFor(mp) : mp \in {m \in ModelLists : Len(m) <= 3}}
                \cup (IF Tier = "quick" THEN {}
                      ELSE UNION {ConfigsFor4(mp) : mp \in {m \in ModelLists : Len(m) = 4 /\ m[1] = "a" }})
\* misbehaving closures (C17): every position x {short, long, empty} on the configurations with P <= 2
BadConfigs == UNION {{[c EXCEPT !.bad = b] : b \in BadChoices(c.funs) \ {NoBad}} :
                       c \in {c2 \in SmallConfigs : Len(c2.mp) <= 2 /\ Covers(c2.mp, c2.funs) /\ Canonical(c2.funs)}}

\* large arities: one function over a strided selection of ten parameters and one over the rest
Stride(r, st, off) == [i \in 1..r |-> Big[((i * st + off) % 10) + 1]]
RECURSIVE RestOf(_, _)
RestOf(used, i) == IF i > 10 THEN <<>>
                   ELSE (IF Big[i] \in used THEN <<>> ELSE <<Big[i]>>) \o RestOf(used, i + 1)
BigConfigs ==
  {LET f1 == Stride(r, st, off)
       rest == RestOf(Range(f1), 1)
   IN [mp |-> Big,
       funs |-> IF rest = <<>> THEN <<[ps |-> f1, dord |-> o]>>
                ELSE <<[ps |-> f1, dord |-> o], [ps |-> rest, dord |-> "fwd"]>>,
       bad |-> NoBad] :
     r \in 5..10, st \in {1, 3, 7, 9}, off \in (IF Tier = "quick" THEN {0, 4} ELSE 0..9), o \in {"fwd", "rev"}}

VARIABLES cfg, cur, hist
vars == <<cfg, cur, hist>>

P == Len(cfg.mp)
NF == Len(cfg.funs)
Vec(base, n) == [i \in 1..n |-> base + i]
GoodVecs == {Vec(20, P), Vec(30, P)}
BadVecs == {Vec(40, P + 1), <<>>} \cup (IF P >= 2 THEN {Vec(40, P - 1)} ELSE {})

ValidCfg(c) == Covers(c.mp, c.funs) /\ Canonical(c.funs)
Init == /\ cfg \in {c \in SmallConfigs \cup BigConfigs \cup BadConfigs : ValidCfg(c)}
        /\ cur = Vec(10, Len(cfg.mp))
        /\ hist = <<>>

(* ---------------- semantics, by name ---------------- *)
ArgsOf(f) == [i \in 1..Len(f.ps) |-> cur[IndexOf(cfg.mp, f.ps[i])]]
FunCol(j) == ArgsOf(cfg.funs[j]) \o <<50 + j>>
\* derivative of function j with respect to MODEL parameter index k (1-based); <<>> = zero column
DerivCol(j, k) == LET f == cfg.funs[j] IN
                  IF cfg.mp[k] \in Range(f.ps)
                  THEN ArgsOf(f) \o <<100 * j + IndexOf(f.ps, cfg.mp[k])>>
                  ELSE <<>>
FunBad(j) == cfg.bad.j = j /\ cfg.bad.which = 0
DerivBad(j, k) == LET f == cfg.funs[j] IN
                  cfg.bad.j = j /\ cfg.bad.which > 0 /\ cfg.mp[k] \in Range(f.ps)
                  /\ IndexOf(f.ps, cfg.mp[k]) = cfg.bad.which

Ok(cols) == [ok |-> TRUE, cols |-> cols, errs |-> <<>>]
Err(kinds) == [ok |-> FALSE, cols |-> <<>>, errs |-> kinds]

ResSet(v) == IF Len(v) = P THEN Ok(<<>>) ELSE Err(<<"IncorrectParameterCount">>)
ResParams == Ok(<<cur>>)
ResEval == IF \E j \in 1..NF : FunBad(j) THEN Err(<<"UnexpectedFunctionOutput">>)
           ELSE Ok([j \in 1..NF |-> FunCol(j)])
\* k is the zero-based index handed to eval_partial_deriv
ResDeriv(k) == IF k >= P THEN Err(<<"DerivativeIndexOutOfBounds">>)
               ELSE IF \E j \in 1..NF : DerivBad(j, k + 1) THEN Err(<<"UnexpectedFunctionOutput">>)
               ELSE Ok([j \in 1..NF |-> DerivCol(j, k + 1)])

(* ---------------- actions ---------------- *)
Step(op, arg, res, nxt) ==
  /\ cur' = nxt
  /\ cfg' = cfg
  /\ hist' = <<>>
  /\ PrintT(<<"VPME", ToJson([cfg |-> cfg, from |-> cur, op |-> op, arg |-> arg, res |-> res, to |-> nxt])>>)
SetParams(v) == Step("set", v, ResSet(v), IF Len(v) = P THEN v ELSE cur)
Params == Step("params", <<>>, ResParams, cur)
Eval == Step("eval", <<>>, ResEval, cur)
Deriv(k) == Step("deriv", <<k>>, ResDeriv(k), cur)
Next == \/ \E v \in GoodVecs \cup BadVecs : SetParams(v)
        \/ Params \/ Eval
        \/ \E k \in 0..(P + 1) : Deriv(k)
Spec == Init /\ [][Next]_vars

(* ---------------- properties of the design ---------------- *)
\* C17: a rejected update leaves the state untouched; an accepted one replaces it
RejectKeeps == [][(cur' # cur) => (Len(cur') = P /\ cur' \in GoodVecs)]_vars
CurShape == Len(cur) = P
\* C16: zero columns exactly for functions that do not depend on the parameter
ZeroIffIndependent == \A j \in 1..NF : \A k \in 1..P :
                         (DerivCol(j, k) = <<>>) <=> (cfg.mp[k] \notin Range(cfg.funs[j].ps))
\* C16: the position of an argument is its position in the function's own list
ArgsByName == \A j \in 1..NF : \A i \in 1..Len(cfg.funs[j].ps) :
                 ArgsOf(cfg.funs[j])[i] = cur[IndexOf(cfg.mp, cfg.funs[j].ps[i])]
=======================================================================
