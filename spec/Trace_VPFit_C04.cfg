SPECIFICATION Spec
CONSTANT Strict = {"C04"}
POSTCONDITION Accepted
CHECK_DEADLOCK FALSE
