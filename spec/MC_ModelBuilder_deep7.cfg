SPECIFICATION Spec
CONSTANTS Tier = "deep"
          MaxDepth = 7
INVARIANTS OkIffValid ErrInDefects KindsOnly ErrorIsPermanent Export
PROPERTIES Sticky PermanentStays
CHECK_DEADLOCK FALSE
