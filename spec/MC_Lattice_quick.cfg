SPECIFICATION Spec
CONSTANTS Tier = "quick"
          Part = 0
INVARIANTS ThNormalEq ThMinNorm ThObjIsResid ThJacPerp ThGradient ThColumnWise ThLinear ThUnitIsNone ThZeroWeight ThDeriv Export
CHECK_DEADLOCK FALSE
