SPECIFICATION Spec
CONSTANTS Tier = "quick"
          MaxDepth = 5
INVARIANTS OkIffValid ErrInDefects KindsOnly ErrorIsPermanent Export
PROPERTIES Sticky PermanentStays
CHECK_DEADLOCK FALSE
