--------------------------- MODULE VPFit ---------------------------
(***************************************************************************)
(* Optimizer, fitting problem and user model as three parties.             *)
(*                                                                         *)
(* One action per call of the user model (set_params / eval /              *)
(* eval_partial_deriv) and per public call (build, fit, fit_with_          *)
(* statistics, caller driven set_params / jacobian).  The state tracks     *)
(* WHOSE data everything is (provenance tokens, "aids": one integer per    *)
(* distinct parameter vector that reaches the model):                      *)
(*   tgt   aid of the parameters the MODEL holds                           *)
(*   own   aid the cached (residuals, SVD, coefficients) belong to, or -1  *)
(*   acc   aid of the last parameters the optimizer ACCEPTED               *)
(* Failures of model calls are ordinary nondeterministic branches.         *)
(*                                                                         *)
(* The module is model-checked on its own (MC_VPFit: all interleavings of  *)
(* accept / reject / terminate decisions and faults at any call) and is    *)
(* the basis of the trace specification Trace_VPFit, which binds the       *)
(* action parameters to recorded events.                                   *)
(***************************************************************************)
EXTENDS Integers, Sequences, FiniteSets, TLC

VARIABLES phase,      \* protocol phase, see below
          np,         \* number of nonlinear parameters of the run
          acc, tgt, own, aid0,
          nfev,       \* 1 + number of trial updates (what the optimizer reports)
          nevals,     \* model evaluations since FitStart
          pend,       \* derivative indices still missing in the current Jacobian
          seenNone,   \* the optimizer has been handed an absent residual / Jacobian
          faultSeen,  \* some model call failed since FitStart
          patience,
          stats,      \* the public call is fit_with_statistics
          statFault   \* a model call failed during the statistics computation
fvars == <<phase, np, acc, tgt, own, aid0, nfev, nevals, pend, seenNone, faultSeen, patience, stats, statFault>>

(* phases:
   "idle"       nothing built
   "building"   build() is applying the model's initial parameters
   "built"      problem exists, no fit running (caller driven updates possible)
   "cset"       caller driven set_params in progress        "cseteval"  .. model is being evaluated
   "cjac"       caller driven jacobian() in progress
   "jac"        optimizer evaluates a Jacobian (pend = indices not yet seen)
   "jacfailed"  a derivative of the current Jacobian failed
   "trial"      Jacobian complete: the optimizer computes trial steps
   "eval"       trial parameters applied, model evaluation pending
   "setfailed"  the model rejected the trial parameters
   "mustend"    the optimizer has seen an absent value and must terminate
   "reseteval"  the accepted parameters are being re-applied (after a rejected last step)
   "end"        optimizer finished, result not yet returned
   "stats"      statistics are being computed
   "done"       result returned                                                         *)

Succ == {"Converged", "Orthogonal", "ResidualsZero"}
AllIdx == 0..(np - 1)

Init0 == /\ phase = "idle" /\ np = 1 /\ acc = -1 /\ tgt = -1 /\ own = -1 /\ aid0 = -1
         /\ nfev = 0 /\ nevals = 0 /\ pend = {} /\ seenNone = FALSE /\ faultSeen = FALSE
         /\ patience = 0 /\ stats = FALSE /\ statFault = FALSE

(* ---------------- construction ---------------- *)
BuildStart(p) ==
  /\ phase' = "building"
  /\ np' = p
  /\ acc' = -1 /\ tgt' = -1 /\ own' = -1 /\ aid0' = -1
  /\ nfev' = 0 /\ nevals' = 0 /\ pend' = {} /\ seenNone' = FALSE /\ faultSeen' = FALSE
  /\ patience' = 0 /\ stats' = FALSE /\ statFault' = FALSE

\* build() applies the model's own parameters: the model holds `aid` before and after,
\* whether or not its set_params succeeds
BuildSet(aid, ok) ==
  /\ phase = "building"
  /\ tgt = -1
  /\ tgt' = aid
  /\ aid0' = aid
  /\ own' = -1
  /\ phase' = IF ok THEN "buildeval" ELSE "buildsetfailed"
  /\ UNCHANGED <<np, acc, nfev, nevals, pend, seenNone, faultSeen, patience, stats, statFault>>
BuildEval(ok) ==
  /\ phase \in {"buildeval", "buildsetfailed"}
  \* an evaluation after a failed parameter application is admissible but must not fill the cache
  /\ own' = IF phase = "buildeval" /\ ok THEN tgt ELSE -1
  /\ phase' = "buildevaldone"
  /\ UNCHANGED <<np, acc, tgt, aid0, nfev, nevals, pend, seenNone, faultSeen, patience, stats, statFault>>
\* build() need not re-apply the parameters the model already holds: it may evaluate straight away
BuildSameEval(aid, ok) ==
  /\ phase = "building"
  /\ tgt = -1
  /\ tgt' = aid
  /\ aid0' = aid
  /\ own' = IF ok THEN aid ELSE -1
  /\ phase' = "buildevaldone"
  /\ UNCHANGED <<np, acc, nfev, nevals, pend, seenNone, faultSeen, patience, stats, statFault>>
\* NAMED DEVIATION (defect D2 of the pinned tree): after a failed parameter application the model
\* is evaluated with its OLD parameters and the cache is refilled.  Kept as an action so that such
\* executions are behaviours of the bare protocol; property C09 forbids it (see Trace_VPFit).
StaleBuildEval(ok) ==
  /\ phase = "buildsetfailed"
  /\ own' = IF ok THEN tgt ELSE -1
  /\ phase' = "buildevaldone"
  /\ UNCHANGED <<np, acc, tgt, aid0, nfev, nevals, pend, seenNone, faultSeen, patience, stats, statFault>>
BuildEnd ==
  /\ phase \in {"buildevaldone", "buildsetfailed", "building"}
  /\ phase' = "built"
  /\ UNCHANGED <<np, acc, tgt, own, aid0, nfev, nevals, pend, seenNone, faultSeen, patience, stats, statFault>>

(* ---------------- caller driven updates and queries ---------------- *)
\* while an update is in progress (phases "cseteval", "eval", "reseteval") the cache still is the old one
CSet(aid, ok) ==
  /\ phase \in {"built", "done"}
  /\ tgt' = IF ok THEN aid ELSE tgt
  /\ own' = IF ok THEN own ELSE -1
  /\ phase' = IF ok THEN "cseteval" ELSE "csetfailed"
  /\ nfev' = 0       \* a caller driven update ends the life of a fit result
  /\ UNCHANGED <<np, acc, aid0, nevals, pend, seenNone, faultSeen, patience, stats, statFault>>
\* keep = TRUE is the NAMED DEVIATION "cache kept although the evaluation failed" (stale values of
\* the previous parameters stay exposed); property C09 forbids it
CSetEval(ok, keep) ==
  /\ phase \in {"cseteval", "csetfailed"}
  /\ keep => (~ok /\ phase = "cseteval")
  /\ own' = IF phase = "cseteval" /\ ok THEN tgt ELSE IF keep THEN own ELSE -1
  /\ phase' = "csetevaldone"
  /\ UNCHANGED <<np, acc, tgt, aid0, nfev, nevals, pend, seenNone, faultSeen, patience, stats, statFault>>
StaleCSetEval(ok) ==
  /\ phase = "csetfailed"
  /\ own' = IF ok THEN tgt ELSE -1
  /\ phase' = "csetevaldone"
  /\ UNCHANGED <<np, acc, tgt, aid0, nfev, nevals, pend, seenNone, faultSeen, patience, stats, statFault>>
\* A problem need not re-apply parameters the model already holds: the model is evaluated (again) at
\* the parameters it has, the cache is refreshed for them.  (Whether the caller really asked for these
\* parameters is checked by the trace specification: the marker of the update carries the request.)
CSameEval(ok) ==
  /\ phase \in {"built", "done"}
  /\ own' = IF ok THEN tgt ELSE -1
  /\ phase' = "csetevaldone"
  /\ nfev' = 0
  /\ UNCHANGED <<np, acc, tgt, aid0, nevals, pend, seenNone, faultSeen, patience, stats, statFault>>
\* the same inside a fit: a trial step that does not move the parameters, or the re-application of the
\* accepted parameters when they are the ones in effect
TrialSameEval(ok, dec) ==
  /\ phase = "trial"
  /\ dec \in {"accept", "acceptstop", "reject"}
  /\ nfev' = nfev + 1
  /\ nevals' = nevals + 1
  /\ IF ok
     THEN /\ own' = tgt
          /\ UNCHANGED <<seenNone, faultSeen>>
          /\ acc' = IF dec = "reject" THEN acc ELSE tgt
          /\ phase' = IF dec = "accept" THEN "jac" ELSE "trial"
          /\ pend' = IF dec = "accept" THEN AllIdx ELSE {}
     ELSE /\ own' = -1 /\ phase' = "mustend" /\ seenNone' = TRUE /\ faultSeen' = TRUE
          /\ acc' = acc /\ pend' = {}
  /\ UNCHANGED <<np, tgt, aid0, patience, stats, statFault>>
ResetSameEval(ok) ==
  /\ phase = "trial"
  /\ tgt = acc
  /\ phase' = "end"
  /\ nevals' = nevals + 1
  /\ own' = IF ok THEN tgt ELSE -1
  /\ faultSeen' = (faultSeen \/ ~ok)
  /\ UNCHANGED <<np, acc, tgt, aid0, nfev, pend, seenNone, patience, stats, statFault>>

\* NAMED DEVIATION "update without evaluation": the parameters are applied, the model is not evaluated
\* and the cache is kept.  Harmless exactly when the cache already belongs to these parameters
\* (own = aid: a memoising implementation); otherwise the problem reports the new parameters next to
\* the coefficients and residuals of the old ones, which C02 / C10 forbid (see Trace_VPFit).
CSetSkip(aid) ==
  /\ phase \in {"built", "done"}
  /\ tgt' = aid
  /\ own' = own
  /\ phase' = "csetevaldone"
  /\ nfev' = 0
  /\ UNCHANGED <<np, acc, aid0, nevals, pend, seenNone, faultSeen, patience, stats, statFault>>
CSetEnd ==
  /\ phase \in {"csetevaldone", "csetfailed"}
  /\ phase' = "built"
  /\ UNCHANGED <<np, acc, tgt, own, aid0, nfev, nevals, pend, seenNone, faultSeen, patience, stats, statFault>>
\* caller driven jacobian(): derivative calls in any order; ends with a marker
CJacDeriv(k, ok) ==
  /\ phase \in {"built", "done", "cjac", "cjacfailed"}
  /\ k \in AllIdx
  /\ phase' = IF ok /\ phase # "cjacfailed" THEN "cjac" ELSE "cjacfailed"
  /\ pend' = IF phase \in {"built", "done"} THEN AllIdx \ {k} ELSE pend \ {k}
  /\ UNCHANGED <<np, acc, tgt, own, aid0, nfev, nevals, seenNone, faultSeen, patience, stats, statFault>>
\* (the problem a fit handed back is an ordinary problem: after a query it still is a result, nfev > 0)
CJacEnd ==
  /\ phase \in {"built", "done", "cjac", "cjacfailed"}
  /\ phase' = IF nfev > 0 THEN "done" ELSE "built"
  /\ pend' = {}
  /\ UNCHANGED <<np, acc, tgt, own, aid0, nfev, nevals, seenNone, faultSeen, patience, stats, statFault>>
\* the Jacobian a caller gets: present iff the cache is present and every derivative evaluated
CJacPresent == own # -1 /\ phase = "cjac" /\ pend = {}
\* ... and it IS produced whenever the cache is present and no derivative failed (np >= 1: then
\* every derivative has been evaluated), whatever happened to the problem before
CJacDue == own # -1 /\ phase # "cjacfailed"

(* ---------------- the optimizer ---------------- *)
\* startJac: does the optimizer obtain residuals at the start (and goes on to the Jacobian)?
\* A correct problem delivers them iff its cache is present (guard in Trace_VPFit / MC_VPFit).
FitStart(pat, withStats, startJac) ==
  /\ phase \in {"built", "done"}
  /\ patience' = pat
  /\ stats' = withStats
  /\ statFault' = FALSE
  /\ acc' = tgt
  /\ aid0' = tgt
  /\ nfev' = 1
  /\ nevals' = 0
  /\ faultSeen' = FALSE
  /\ IF startJac
     THEN phase' = "jac" /\ pend' = AllIdx /\ seenNone' = FALSE
     ELSE phase' = "mustend" /\ pend' = {} /\ seenNone' = TRUE
  /\ UNCHANGED <<np, tgt, own>>

\* derivative calls of one Jacobian: any order, repetitions allowed; the Jacobian is complete
\* when every index has been seen; after a failure the remaining calls are optional
Deriv(k, ok) ==
  /\ phase \in {"jac", "jacfailed"}
  /\ k \in AllIdx
  /\ pend' = pend \ {k}
  /\ IF phase = "jacfailed" \/ ~ok
     THEN phase' = "jacfailed" /\ seenNone' = TRUE /\ faultSeen' = TRUE
     ELSE phase' = (IF pend \ {k} = {} THEN "trial" ELSE "jac") /\ UNCHANGED <<seenNone, faultSeen>>
  /\ UNCHANGED <<np, acc, tgt, own, aid0, nfev, nevals, patience, stats, statFault>>

TrialSet(aid, ok) ==
  /\ phase = "trial"
  /\ nfev' = nfev + 1
  /\ IF ok
     THEN tgt' = aid /\ own' = own /\ phase' = "eval" /\ UNCHANGED <<seenNone, faultSeen>>
     ELSE tgt' = tgt /\ own' = -1 /\ phase' = "setfailed" /\ seenNone' = TRUE /\ faultSeen' = TRUE
  /\ UNCHANGED <<np, acc, aid0, nevals, pend, patience, stats, statFault>>

\* A MEMOISING problem may hand out a Jacobian it has computed before for the same parameters without
\* calling the model again (the Jacobian depends on the parameters only: C10).  The optimizer then goes
\* from "a Jacobian is due" straight to its trial step; whether the memo is legitimate is decided by the
\* trace specification (Trace_VPFit!MemoOk).
TrialSetMemo(aid, ok) ==
  /\ phase = "jac" /\ pend = AllIdx
  /\ nfev' = nfev + 1
  /\ pend' = {}
  /\ IF ok
     THEN tgt' = aid /\ own' = own /\ phase' = "eval" /\ UNCHANGED <<seenNone, faultSeen>>
     ELSE tgt' = tgt /\ own' = -1 /\ phase' = "setfailed" /\ seenNone' = TRUE /\ faultSeen' = TRUE
  /\ UNCHANGED <<np, acc, aid0, nevals, patience, stats, statFault>>

\* NAMED DEVIATION "partial Jacobian": a derivative failed, yet the optimizer was handed a Jacobian and
\* goes on with a trial step (C03 / C09 forbid it: no Jacobian rather than a partially filled one)
TrialSetAfterFailedJac(aid, ok) ==
  /\ phase = "jacfailed"
  /\ nfev' = nfev + 1
  /\ pend' = {}
  /\ IF ok
     THEN tgt' = aid /\ own' = own /\ phase' = "eval" /\ UNCHANGED <<seenNone, faultSeen>>
     ELSE tgt' = tgt /\ own' = -1 /\ phase' = "setfailed" /\ seenNone' = TRUE /\ faultSeen' = TRUE
  /\ UNCHANGED <<np, acc, aid0, nevals, patience, stats, statFault>>

\* NAMED DEVIATION "update without evaluation" inside a fit (see CSetSkip): the optimizer is handed the
\* cached residuals and decides on them
TrialSetSkip(aid, dec) ==
  /\ phase = "trial"
  /\ dec \in {"accept", "acceptstop", "reject"}
  /\ nfev' = nfev + 1
  /\ tgt' = aid
  /\ own' = own
  /\ acc' = IF dec = "reject" THEN acc ELSE aid
  /\ phase' = IF dec = "accept" THEN "jac" ELSE "trial"
  /\ pend' = IF dec = "accept" THEN AllIdx ELSE {}
  /\ UNCHANGED <<np, aid0, nevals, seenNone, faultSeen, patience, stats, statFault>>
ResetSetSkip(aid) ==
  /\ phase = "trial"
  /\ aid = acc
  /\ tgt' = acc
  /\ own' = own
  /\ phase' = "end"
  /\ UNCHANGED <<np, acc, aid0, nfev, nevals, pend, seenNone, faultSeen, patience, stats, statFault>>

\* admissible but without effect: the model is evaluated although its set_params failed
EvalAfterFailedSet(ok) ==
  /\ phase = "setfailed"
  /\ phase' = "mustend"
  /\ nevals' = nevals + 1
  /\ UNCHANGED <<np, acc, tgt, own, aid0, nfev, pend, seenNone, faultSeen, patience, stats, statFault>>

\* the optimizer's decision about the trial step is not logged; it is a parameter that the
\* trace specification leaves to TLC:  "accept" (new Jacobian follows), "acceptstop" (accepted,
\* a termination test fired), "reject" (another trial step, or reset + termination, follows)
Decisions == {"accept", "acceptstop", "reject"}
\* keep = TRUE: NAMED DEVIATION "cache kept although the evaluation failed": the optimizer is handed
\* the residuals of the PREVIOUS parameters and carries on
TrialEval(ok, dec, keep) ==
  /\ phase = "eval"
  /\ dec \in Decisions
  /\ keep => ~ok
  /\ nevals' = nevals + 1
  /\ IF ok \/ keep
     THEN /\ own' = IF ok THEN tgt ELSE own
          /\ faultSeen' = (faultSeen \/ ~ok)
          /\ UNCHANGED seenNone
          /\ acc' = IF dec = "reject" THEN acc ELSE tgt
          /\ phase' = IF dec = "accept" THEN "jac" ELSE "trial"
          /\ pend' = IF dec = "accept" THEN AllIdx ELSE {}
     ELSE /\ own' = -1 /\ phase' = "mustend" /\ seenNone' = TRUE /\ faultSeen' = TRUE
          /\ acc' = acc /\ pend' = {}
  /\ UNCHANGED <<np, tgt, aid0, nfev, patience, stats, statFault>>

\* NAMED DEVIATION (defect D2): the trial parameters were rejected by the model, but the problem
\* evaluates the model at its old parameters, refills the cache and the optimizer never learns
StaleTrialEval(ok, dec) ==
  /\ phase = "setfailed"
  /\ dec \in Decisions
  /\ nevals' = nevals + 1
  /\ faultSeen' = TRUE
  /\ IF ok
     THEN /\ own' = tgt
          /\ seenNone' = FALSE
          /\ acc' = IF dec = "reject" THEN acc ELSE tgt
          /\ phase' = IF dec = "accept" THEN "jac" ELSE "trial"
          /\ pend' = IF dec = "accept" THEN AllIdx ELSE {}
     ELSE /\ own' = -1 /\ phase' = "mustend" /\ seenNone' = TRUE
          /\ acc' = acc /\ pend' = {}
  /\ UNCHANGED <<np, tgt, aid0, nfev, patience, stats, statFault>>

\* before terminating after a rejected step the optimizer re-applies the accepted parameters;
\* this update is not counted as an evaluation
ResetSet(aid, ok) ==
  /\ phase = "trial"
  /\ aid = acc          \* (the rejected trial parameters may coincide with the accepted ones)
  /\ IF ok THEN tgt' = acc /\ own' = own /\ phase' = "reseteval" /\ faultSeen' = faultSeen
     ELSE tgt' = tgt /\ own' = -1 /\ phase' = "resetsetfailed" /\ faultSeen' = TRUE
  /\ UNCHANGED <<np, acc, aid0, nfev, nevals, pend, seenNone, patience, stats, statFault>>
ResetEval(ok, keep) ==
  /\ phase \in {"reseteval", "resetsetfailed"}
  /\ keep => (~ok /\ phase = "reseteval")
  /\ phase' = "end"
  /\ nevals' = nevals + 1
  /\ own' = IF phase = "reseteval" /\ ok THEN tgt ELSE IF keep THEN own ELSE -1
  /\ faultSeen' = (faultSeen \/ ~ok)
  /\ UNCHANGED <<np, acc, tgt, aid0, nfev, pend, seenNone, patience, stats, statFault>>

\* phases in which the optimizer may return
Terminable == phase \in {"trial", "end", "jacfailed", "mustend", "setfailed", "resetsetfailed"}
              \/ (phase = "jac" /\ pend = AllIdx)
\* NAMED DEVIATION "parameters applied behind the cache": after the optimizer has finished, fit() applies
\* parameters to the MODEL directly (not through the problem): the model then holds parameters the cache
\* does not belong to.  C02 / C09 / C10 forbid it.
PostFitSet(aid, ok) ==
  /\ Terminable
  /\ phase' = "end"
  /\ tgt' = IF ok THEN aid ELSE tgt
  /\ UNCHANGED <<np, acc, own, aid0, nfev, nevals, pend, seenNone, faultSeen, patience, stats, statFault>>

\* the optimizer's verdict must be a failure once it has seen an absent value
MustFail == seenNone

FitEndStep ==
  /\ Terminable
  /\ phase' = "done"
  /\ UNCHANGED <<np, acc, tgt, own, aid0, nfev, nevals, pend, seenNone, faultSeen, patience, stats, statFault>>

(* ---------------- statistics (fit_with_statistics) ---------------- *)
StatCall(ok) ==
  /\ stats
  /\ Terminable \/ phase = "stats"
  /\ phase' = "stats"
  /\ statFault' = (statFault \/ ~ok)
  /\ UNCHANGED <<np, acc, tgt, own, aid0, nfev, nevals, pend, seenNone, faultSeen, patience, stats>>
StatsEndStep ==
  /\ stats
  /\ Terminable \/ phase = "stats"
  /\ phase' = "done"
  /\ UNCHANGED <<np, acc, tgt, own, aid0, nfev, nevals, pend, seenNone, faultSeen, patience, stats, statFault>>

\* queries on the returned result (best_fit evaluates the model once more)
PostEval(ok) ==
  /\ phase = "done"
  /\ UNCHANGED fvars

(* ---------------- properties of the design ---------------- *)
\* C02/C09/C10: whatever is cached belongs to the parameters the model holds
Pending == phase \in {"cseteval", "eval", "reseteval"}
Coherent == (own # -1 /\ ~Pending) => own = tgt
\* C04: the evaluation budget
BudgetRespected == patience > 0 => nfev <= patience * (np + 1) + 1
TypeOK == /\ own \in -1..1000 /\ tgt \in -1..1000 /\ acc \in -1..1000
          /\ pend \subseteq 0..(np - 1)
=======================================================================
